(* Small corollaries used by the property files: sequence ids of consecutive packets (C05) and
   "buffered commands are served without reading" (C12).  Proofs only; statements fixed. *)
From MsqlVerif Require Import Model.Packet Spec.Frame Proofs.BaseLemmas Proofs.PacketWrite Proofs.PacketRead.
From Coq Require Import Lia.
Open Scope N_scope.

(* the sequence id in a packet's header *)
Definition pkt_seq (pkt : bytes) : option N :=
  match pkt with _ :: _ :: _ :: q :: _ => Some (N_of_b q) | _ => None end.
(* the payload length announced by a packet's header, and its actual payload length *)
Definition pkt_len_ok (pkt : bytes) : Prop :=
  match pkt with a :: b :: c :: _ :: body => le_val [a; b; c] = Nlen body | _ => False end.

(* one packet: header built from its own body *)
Lemma pkt_one x qq body :
  x = Nlen body -> x < 2 ^ 24 ->
  pkt_seq (le_bytes 3 x ++ b_of_N qq :: body) = Some (qq mod 256) /\
  pkt_len_ok (le_bytes 3 x ++ b_of_N qq :: body).
Proof.
  intros Hx Hlt.
  assert (Hv : le_val (le_bytes 3 x) = x) by (apply le_val_le_bytes; exact Hlt).
  cbn [le_bytes app] in *. unfold pkt_seq, pkt_len_ok.
  rewrite N_of_b_of_N. split; [reflexivity|]. rewrite Hv. exact Hx.
Qed.

Lemma frame_pkts_ids_n n : forall lim q p k pkt, (length p <= n)%nat ->
  0 < lim -> lim < 2 ^ 24 ->
  nth_error (frame_pkts lim q p) k = Some pkt ->
  pkt_seq pkt = Some ((q + N.of_nat k) mod 256) /\ pkt_len_ok pkt.
Proof.
  induction n as [|n IH]; intros lim q p k pkt Hn H0 Hlim; rewrite frame_pkts_unfold by exact H0;
    destruct (N.leb_spec lim (Nlen p)) as [Hle|Hlt]; intro H.
  - unfold Nlen in Hle. lia.
  - destruct k as [|k]; [|destruct k; discriminate H].
    cbn [nth_error] in H. inversion H; subst pkt.
    change (N.of_nat 0) with 0. rewrite N.add_0_r.
    apply pkt_one; [reflexivity | lia].
  - destruct k as [|k].
    + cbn [nth_error] in H. inversion H; subst pkt.
      change (N.of_nat 0) with 0. rewrite N.add_0_r.
      apply pkt_one; [|exact Hlim].
      unfold Nlen in *. rewrite firstn_length_le by lia. lia.
    + cbn [nth_error] in H. apply IH in H; [|rewrite skipn_length; unfold Nlen in Hle; lia | exact H0 | exact Hlim].
      destruct H as [Hs Hl]. split; [|exact Hl]. rewrite Hs. f_equal.
      rewrite N.add_mod_idemp_l by lia. f_equal. lia.
  - destruct k as [|k]; [|destruct k; discriminate H].
    cbn [nth_error] in H. inversion H; subst pkt.
    change (N.of_nat 0) with 0. rewrite N.add_0_r.
    apply pkt_one; [reflexivity | lia].
Qed.

(* the k-th packet of an exchange carries the id (first id + k) mod 256 -- it wraps, never stalls
   or repeats, however many packets the response has -- and every header length is exact *)
Lemma frame_all_pkts_ids lim q msgs k pkt :
  0 < lim -> lim < 2 ^ 24 -> q < 256 ->
  nth_error (frame_all_pkts lim q msgs) k = Some pkt ->
  pkt_seq pkt = Some ((q + N.of_nat k) mod 256) /\ pkt_len_ok pkt.
Proof.
  intros H0 Hlim _. revert q k. induction msgs as [|m r IH]; intros q k H.
  - destruct k; discriminate H.
  - cbn [frame_all_pkts] in H.
    destruct (Nat.lt_ge_cases k (length (frame_pkts lim q m))) as [Hk|Hk].
    + rewrite nth_error_app1 in H by exact Hk.
      apply (frame_pkts_ids_n (length m)) in H; [exact H | apply Nat.le_refl | exact H0 | exact Hlim].
    + rewrite nth_error_app2 in H by exact Hk.
      apply IH in H. destruct H as [Hs Hl]. split; [|exact Hl]. rewrite Hs. f_equal.
      rewrite N.add_mod_idemp_l by lia. f_equal.
      pose proof (frame_pkts_count lim q m H0) as Hc. unfold Nlen in Hc. rewrite <- Hc. lia.
Qed.

(* a command that is already completely buffered is returned without touching the transport *)
Lemma next_no_read s q p rest :
  0 < s_lim s -> s_lim s < 2 ^ 24 -> q < 256 ->
  s_buf s = frame (s_lim s) q p ++ rest ->
  next s = (ROk (Some (last_seq (s_lim s) q p, p)), set_buf rest s).
Proof.
  intros H0 Hlim Hq Hb. unfold next. apply next_f_done. rewrite Hb.
  apply packet_frame; assumption.
Qed.

Print Assumptions frame_all_pkts_ids.
Print Assumptions next_no_read.

(* ---- completion counts at the level of result units (C14) ---- *)
From MsqlVerif Require Import Model.Resultset Spec.Client Spec.Render.

Lemma un_completed errtab bin r i : un_q errtab bin (QCompleted r i) = Some [UOk r i].
Proof. reflexivity. Qed.
Lemma un_complete_one errtab bin r i k :
  un_q errtab bin (QCompleteOne r i k) = ocons (UOk r i) (un_q errtab bin k).
Proof. reflexivity. Qed.

(* a zero-column resultset: only end_row / write_row count, write_col does not; the unit is an OK
   whose affected-rows is the number of rows ended and whose last-insert-id is 0 *)
Inductive zstep := ZEnd (e : onerr) | ZRow (vs : list value) (e : onerr) | ZCol (v : value) (e : onerr).
Fixpoint zprog (steps : list zstep) (fin : rprog) : rprog :=
  match steps with
  | [] => fin
  | ZEnd e :: r => REndRow e (zprog r fin)
  | ZRow vs e :: r => RWriteRow vs e (zprog r fin)
  | ZCol v e :: r => RWriteCol v e (zprog r fin)
  end.
Definition zcount (steps : list zstep) : nat :=
  length (filter (fun s => match s with ZCol _ _ => false | _ => true end) steps).

Lemma un_zero_cols_gen errtab bin steps cur done cnt :
  un_r errtab bin [] cur done cnt (zprog steps RFinish) = Some [UOk (N.of_nat (cnt + zcount steps)) 0].
Proof.
  revert cur done cnt. induction steps as [|s steps IH]; intros cur done cnt.
  - cbn [zprog un_r zcount filter length]. rewrite Nat.add_0_r. reflexivity.
  - destruct s as [e|vs e|v e]; cbn [zprog un_r].
    + rewrite IH. unfold zcount. cbn [filter length]. do 3 f_equal. lia.
    + rewrite IH. unfold zcount. cbn [filter length]. do 3 f_equal. lia.
    + rewrite IH. unfold zcount. cbn [filter length]. reflexivity.
Qed.
Lemma un_zero_cols errtab bin steps :
  un_q errtab bin (QStart [] (zprog steps RFinish)) = Some [UOk (N.of_nat (zcount steps)) 0].
Proof. cbn [un_q]. apply un_zero_cols_gen. Qed.
Print Assumptions un_zero_cols.
