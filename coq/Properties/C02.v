(* C02  Each client command reaches exactly the right shim callback, verbatim.  Property theorems only. *)
From MsqlVerif Require Import Model.Server Spec.Frame Spec.AbsServer Proofs.PacketRead Proofs.RunRender
  Proofs.ServerRun Proofs.History.
Open Scope N_scope.

(* which callback a command reaches: exactly the matching one, with the arguments the client sent
   (query / prepare text verbatim, statement ids and schema names exact); PING, FIELD_LIST,
   `SELECT @@...` probes, LONG_DATA reach no callback *)
Theorem C02_dispatch : forall fpext fptrunc errtab cmd ss rep ss',
  abs_handle fpext fptrunc errtab cmd ss = Some (rep, ss') ->
  match primary_call cmd with
  | None => a_calls rep = []
  | Some c => exists params, a_calls rep = c :: params /\ Forall is_param_call params /\
                             ((forall id b, cmd <> CmdExecute id b) -> params = [])
  end.
Proof. exact dispatch. Qed.

(* text that is not valid UTF-8 is never handed to the shim *)
Theorem C02_utf8_gate : forall fpext fptrunc errtab cmd ss rep ss',
  abs_handle fpext fptrunc errtab cmd ss = Some (rep, ss') ->
  match cmd with
  | CmdQuery q => is_builtin_query q = false -> utf8_valid (if is_use_query q then skipn 4 q else q) = true
  | CmdPrepare q | CmdInit q => utf8_valid q = true
  | _ => True
  end.
Proof. exact dispatch_utf8. Qed.
Theorem C02_invalid_utf8_is_error : forall fpext fptrunc errtab q st sc s,
  is_prefix sel_upper q || is_prefix sel_lower q = false ->
  is_prefix use_upper q || is_prefix use_lower q = false ->
  utf8_valid q = false ->
  handle fpext fptrunc errtab (CmdQuery q) (st, sc) s = (RErr EInvalidData, s).
Proof. exact handle_invalid_utf8_query. Qed.

(* `USE <db>`: bare or back-tick quoted name, optional trailing semicolons, optional white space
   before the name and after the statement -- the shim gets the bare name *)
Theorem C02_use_spellings : forall ws1 q1 name q2 semis ws2,
  ws_run ws1 -> ws_run ws2 -> bare_name name ->
  q1 = repeat x60 (length q1) -> q2 = repeat x60 (length q2) -> semis = repeat x3b (length semis) ->
  use_schema (ws1 ++ q1 ++ name ++ q2 ++ semis ++ ws2) = name.
Proof. exact use_spellings. Qed.

(* whole conversations, any chunking: the callbacks invoked are exactly those of the commands, each
   once, in arrival order, nothing else *)
Theorem C02_order : forall fpext fptrunc errtab cmds ss0 reps ss1 fuel s,
  wf_conn s -> Forall (fun c => fst c < 256) cmds ->
  inbound s = frames (s_lim s) cmds ->
  abs_run fpext fptrunc errtab cmds ss0 = Some (reps, ss1) ->
  (length cmds < fuel)%nat ->
  exists s' chron,
    run_f fpext fptrunc errtab fuel ss0 s = (ROk tt, s') /\
    s_trace s' = ERead 0 :: rev chron ++ s_trace s /\
    conv_trace (s_lim s) cmds reps chron /\ clean s'.
Proof. exact run_refines. Qed.
Theorem C02_calls_of_conversation : forall lim cmds reps chron,
  conv_trace lim cmds reps chron -> calls_of chron = flat_map a_calls reps.
Proof. exact conv_trace_calls. Qed.

(* near misses of the built-in prefixes are ordinary queries *)
Example C02_near_misses :
  map (fun q => primary_call (CmdQuery q))
      [ [x53; x45; x4c; x45; x43; x54; x20; x40; x78];              (* "SELECT @x"  *)
        [x53; x65; x6c; x65; x63; x74; x20; x40; x40; x78];         (* "Select @@x" *)
        [x55; x53; x45; x64; x62];                                  (* "USEdb"      *)
        [x75; x73; x65; x09; x64; x62];                             (* "use\tdb"    *)
        [x55; x53; x45; x52; x28; x29] ]                            (* "USER()"     *)
  = map (fun q => Some (CQuery q))
      [ [x53; x45; x4c; x45; x43; x54; x20; x40; x78]; [x53; x65; x6c; x65; x63; x74; x20; x40; x40; x78];
        [x55; x53; x45; x64; x62]; [x75; x73; x65; x09; x64; x62]; [x55; x53; x45; x52; x28; x29] ].
Proof. vm_compute. reflexivity. Qed.
Example C02_use_example :
  use_schema [x20; x60; x6d; x79; x64; x62; x60; x3b; x20; x0a] = [x6d; x79; x64; x62].   (* " `mydb`; \n" *)
Proof. vm_compute. reflexivity. Qed.
