(* C03  Exactly one complete, protocol-conformant response per command.
   Property theorems only (closed by `exact`), plus non-vacuity examples. *)
From MsqlVerif Require Import Model.Resultset Model.ErrTab Spec.Frame Spec.Client Spec.Render
  Proofs.RunRender Proofs.ClientRender Proofs.ValueClient Proofs.CodecClient.
Open Scope N_scope.

(* (1) what the server puts on the wire: for EVERY finite program over the writer API
   {start, write_col, end_row, write_row, finish, finish_one, finish_error, complete_one, completed,
   error, no_more_results, drop} all of whose calls report success, in text and binary mode, over all
   column counts, at every packet limit: run from a clean connection it sends exactly the canonical
   framing of the messages [pm_q] and leaves the connection clean (command-ready) *)
Theorem C03_server_sends : forall errtab quiet q p msgs s,
  clean s ->
  pm_q errtab (q_bin q) (q_last q) p = Some msgs ->
  exists s',
    run_q errtab quiet q p s = (ROk tt, s') /\ clean s' /\
    sent s s' (frame_all_pkts (s_lim s) (s_seq s) msgs) /\
    s_seq s' = seq_after (s_lim s) (s_seq s) msgs.
Proof. exact run_q_render. Qed.

(* (2) what the client decodes: those messages are ONE complete response of a conformant client --
   the result units the program denotes (rows as the values written, completion counts, errors),
   the more-results flag on every terminator except the last (otherwise decoding would stop early
   or run on), and whatever follows (the next command's reply) is untouched: no shift *)
Theorem C03_client_decodes : forall errtab bin p msgs units rest,
  errtab_ok errtab -> qprog_ok p -> N.of_nat (qsize p) < 2 ^ 64 ->
  pm_q errtab bin None p = Some msgs ->
  un_q errtab bin p = Some units -> units <> [] ->
  c_response (S (length msgs)) bin (msgs ++ rest) = Some (units, rest).
Proof. exact client_render_rest. Qed.

(* the two success conditions coincide, and only the bare drop / no_more_results of a fresh writer
   produces nothing *)
Theorem C03_units_defined : forall errtab bin p msgs,
  pm_q errtab bin None p = Some msgs -> exists units, un_q errtab bin p = Some units.
Proof. exact pm_un_defined. Qed.
Theorem C03_silent_only_on_bare_drop : forall errtab bin p units,
  un_q errtab bin p = Some units -> units = [] -> p = QDrop \/ p = QNoMore.
Proof. exact un_q_nonempty. Qed.

(* (3) shape violations are refused: a NULL for a NOT NULL column makes write_col fail ... *)
Theorem C03_null_refused : forall cols r v c,
  nth_error cols (pr_col r) = Some c -> is_null v = true ->
  has_flag (c_flags c) NOT_NULL_FLAG = true ->
  p_write_col true cols r v = None.
Proof. exact write_col_refuses_null. Qed.

(* ... and the other shape violations, at the level of the monadic RowWriter model: the call returns
   InvalidData and the connection state is untouched -- nothing malformed is emitted *)
From MsqlVerif Require Import Model.Resultset Proofs.ShapeRefused.
Theorem C03_end_row_wrong_count_refused : forall w s,
  r_cols w <> [] -> r_col w <> length (r_cols w) ->
  end_row w s = (ROk (w, Some EInvalidData), s).
Proof. exact end_row_wrong_count_refused. Qed.
Theorem C03_surplus_cell_refused_bin : forall w v s,
  r_cols w <> [] -> q_bin (r_q w) = true -> (0 < r_col w)%nat -> (length (r_cols w) <= r_col w)%nat ->
  write_col w v s = (ROk (w, Some EInvalidData), s).
Proof. exact write_col_surplus_refused_bin. Qed.
Theorem C03_write_row_wrong_count_refused : forall w vs w' s s',
  r_cols w <> [] ->
  write_cols w vs s = (ROk (w', None), s') -> r_cols w' = r_cols w -> r_col w' <> length (r_cols w) ->
  write_row w vs s = (ROk (w', Some EInvalidData), s').
Proof. exact write_row_wrong_count_refused. Qed.

(* non-vacuity: a two-resultset chain with NULLs, a completion and a zero-column resultset *)
Example C03_example :
  let c1 := {| c_table := [x74]; c_name := [x61]; c_type := 3; c_flags := 0 |} in
  let c2 := {| c_table := []; c_name := [x62]; c_type := 253; c_flags := 0 |} in
  let p := QStart [c1; c2] (RWriteRow [VInt I32 (-5)%Z; VBytes [x68; x69]] Propagate
             (RWriteCol (VInt I32 7) Propagate (RWriteCol VNone Propagate (REndRow Propagate
             (RFinishOne (QCompleteOne 3 4 (QStart [] (REndRow Propagate (REndRow Propagate RFinish))))))))) in
  forall bin, exists msgs units,
    pm_q errtab bin None p = Some msgs /\ un_q errtab bin p = Some units /\ length units = 3%nat /\
    c_response (S (length msgs)) bin msgs = Some (units, []).
Proof. intros c1 c2 p bin. destruct bin; vm_compute; do 2 eexists; repeat split; reflexivity. Qed.
