(* C01  Inbound packets are reassembled exactly under every transport chunking.
   This file contains only the property theorems (closed by `exact`), the tie of the packet
   limit to the constants translated from src/packet.rs, and non-vacuity examples. *)
From MsqlVerif Require Import Model.Packet Model.PacketBuf Spec.Frame Proofs.PacketRead Proofs.PacketBufRefine Proofs.PacketBufSim Gen.Consts.
Open Scope N_scope.

(* (a) a complete framed command at the head of the buffer is delivered whole -- payload
   byte-for-byte, id of its last packet -- and nothing behind it is consumed; for every packet
   limit M, every payload length (any number of maximal fragments, exact multiples included) *)
Theorem C01_packet_complete : forall lim q p rest,
  0 < lim -> lim < 2 ^ 24 -> q < 256 ->
  packet lim (frame lim q p ++ rest) = PDone (last_seq lim q p) p rest.
Proof. exact packet_frame. Qed.

(* (b) a partial command never yields a packet, in particular never a wrong or shortened one *)
Theorem C01_packet_never_partial : forall lim q p x y,
  0 < lim -> lim < 2 ^ 24 -> q < 256 ->
  x ++ y = frame lim q p -> y <> [] -> packet lim x = PNeed.
Proof. exact packet_prefix. Qed.

(* (c) PacketConn::next under ANY partition of the stream into non-empty reads: exactly the next
   framed command is returned, exactly the rest of the stream remains, only reads happen *)
Theorem C01_next_any_chunking : forall s q p rest,
  0 < s_lim s -> s_lim s < 2 ^ 24 -> q < 256 ->
  all_data (s_reads s) ->
  inbound s = frame (s_lim s) q p ++ rest ->
  exists s',
    next s = (ROk (Some (last_seq (s_lim s) q p, p)), s') /\
    inbound s' = rest /\ all_data (s_reads s') /\ next_frame_post s s'.
Proof. exact next_frame. Qed.

(* (d) every command of a conversation, once, in order, byte-for-byte; then a clean end *)
Theorem C01_reassembly : forall s cmds,
  0 < s_lim s -> s_lim s < 2 ^ 24 -> Forall (fun c => fst c < 256) cmds ->
  all_data (s_reads s) ->
  inbound s = frames (s_lim s) cmds ->
  exists s',
    drain (S (length cmds)) s =
      (map (fun c => (last_seq (s_lim s) (fst c) (snd c), snd c)) cmds, ROk tt, s').
Proof. exact reassembly. Qed.

(* (e) a stream that ends inside a packet is an error, never a (shortened) command *)
Theorem C01_truncated_is_error : forall s q p x y,
  0 < s_lim s -> s_lim s < 2 ^ 24 -> q < 256 ->
  all_data (s_reads s) ->
  inbound s = x -> x <> [] -> y <> [] -> x ++ y = frame (s_lim s) q p ->
  exists s', next s = (RErr EUnexpectedEof, s').
Proof. exact next_truncated. Qed.

(* (f) the same for the EXACT buffer bookkeeping of PacketConn::next (bytes / start / remaining,
   drain, resize to max(4096, 2*end), read into the spare capacity, truncate), where a chunk larger
   than the spare capacity is delivered in parts: Model/PacketBuf.v *)
Theorem C01_exact_bookkeeping : forall x s q p rest fuel,
  0 < s_lim s -> s_lim s < 2 ^ 24 -> q < 256 -> x_wf x ->
  all_data (s_reads s) ->
  inbound_x x s = frame (s_lim s) q p ++ rest ->
  (script_size (s_reads s) < fuel)%nat ->
  exists x' s',
    next_x fuel x s = (ROk (Some (last_seq (s_lim s) q p, p)), x', s') /\
    x_wf x' /\ inbound_x x' s' = rest /\ all_data (s_reads s') /\ reads_only s s'.
Proof. exact next_x_frame. Qed.
Theorem C01_exact_truncated : forall x s q p a b fuel,
  0 < s_lim s -> s_lim s < 2 ^ 24 -> q < 256 -> x_wf x ->
  all_data (s_reads s) ->
  inbound_x x s = a -> a <> [] -> b <> [] -> a ++ b = frame (s_lim s) q p ->
  (script_size (s_reads s) < fuel)%nat ->
  exists x' s', next_x fuel x s = (RErr EUnexpectedEof, x', s').
Proof. exact next_x_truncated. Qed.
Theorem C01_exact_clean_end : forall x s fuel,
  x_wf x -> all_data (s_reads s) -> inbound_x x s = [] -> (script_size (s_reads s) < fuel)%nat ->
  exists x' s', next_x fuel x s = (ROk None, x', s') /\ x_tail x' = [] /\ s_reads s' = [].
Proof. exact next_x_eof. Qed.

(* (g) and, for every read script whatsoever (data, end of stream, transport errors) whose chunks fit the
   spare capacity the buffer always offers (>= 2048 bytes), the exact bookkeeping and the abstract one
   used by all other theorems run in lock-step: same result, same trace, same remaining script *)
Theorem C01_exact_simulates : forall fuel x s,
  x_wf x -> small_reads (s_reads s) -> s_buf s = x_tail x ->
  exists r x' s',
    next_x fuel x s = (r, x', s') /\
    x_wf x' /\ small_reads (s_reads s') /\
    next_f fuel s = (r, set_buf (x_tail x') s').
Proof. exact next_x_simulates. Qed.

(* tie: the constants the code uses (translated from src/packet.rs on every run) are an instance *)
Theorem C01_constants : U24_MAX = 2 ^ 24 - 1 /\ 0 < U24_MAX < 2 ^ 24 /\
  map b_of_N fragment_tag = le_bytes 3 U24_MAX.
Proof. vm_compute. repeat split; reflexivity. Qed.

(* non-vacuity: a two-fragment command followed by an exact-multiple command at M = 3, delivered in
   reads that cut headers and bodies *)
Example C01_example :
  let s := init_st 3 [RdData [x03]; RdData [x00; x00; x05; x61]; RdData [x62; x63; x01; x00];
                      RdData [x00; x06; x64; x03; x00; x00; x09; x65; x66; x67; x00; x00];
                      RdData [x00; x0a]] WNone in
  inbound s = frames 3 [(5, [x61; x62; x63; x64]); (9, [x65; x66; x67])] /\
  fst (fst (drain 3 s)) = [(6, [x61; x62; x63; x64]); (10, [x65; x66; x67])].
Proof. vm_compute. split; reflexivity. Qed.
