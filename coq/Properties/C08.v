(* C08  Prepared-statement parameters are decoded to exactly what the client bound.  Property theorems only. *)
From MsqlVerif Require Import Model.Params Spec.ClientEnc Spec.AbsServer Proofs.ParamsDecode.
Open Scope N_scope.

Section WithOracles.
(* std's f32 -> f64 widening and f64 -> f32 narrowing on bit patterns (oracles of the correspondence) *)
Variable fpext : N -> N.
Variable fptrunc : N -> N.
Ltac by_lemma L := first [exact (L fpext fptrunc) | exact (L fpext) | exact (L fptrunc) | exact L].

(* the whole parameter block, ANY number of parameters, ANY NULL pattern, any bound type codes:
   count, type codes and values as the client encoded them *)
Theorem C08_decode : forall ps long bound0 inners,
  Nlen ps < 65536 -> types_ok ps ->
  delivered_all fpext long (types_of ps) 0 ps = Some inners ->
  exists final,
    abs_pull fpext fptrunc (S (length ps)) None [] (pstate0 (Nlen ps) (exec_block ps true) long bound0)
      = Some (param_calls (types_of ps) inners, final) /\
    (ps <> [] -> p_bound final = types_of ps) /\ p_input final = [].
Proof. by_lemma pull_bound. Qed.

(* per type: what the client encodes is what the shim is given *)
Theorem C08_int : forall (t : N) (u : bool) (w : nat) (z : Z) (rest : bytes),
  int_col_bytes t = Some w ->
  (if u then 0 <= z < 2 ^ (8 * Z.of_nat w) else - 2 ^ (8 * Z.of_nat w - 1) <= z < 2 ^ (8 * Z.of_nat w - 1))%Z ->
  parse_value fpext (le_bytes_z w z ++ rest) t u = ROk (if u then PIUInt (Z.to_N z) else PIInt z, rest).
Proof. by_lemma parse_int. Qed.
Theorem C08_bytes : forall t u bs rest,
  is_bytes_col t = true -> Nlen bs < 2 ^ 64 ->
  parse_value fpext (lenenc_str bs ++ rest) t u = ROk (PIBytes bs, rest).
Proof. by_lemma parse_bytes. Qed.
Theorem C08_double : forall u bits rest, bits < 2 ^ 64 ->
  parse_value fpext (le_bytes 8 bits ++ rest) 5 u = ROk (PIDouble bits, rest).
Proof. by_lemma parse_double. Qed.
Theorem C08_float : forall u bits rest, bits < 2 ^ 32 ->
  parse_value fpext (le_bytes 4 bits ++ rest) 4 u = ROk (PIDouble (fpext bits), rest).
Proof. by_lemma parse_float. Qed.
(* every legal length form of DATE / DATETIME / TIMESTAMP / TIME (0, 4, 7, 11 / 0, 8, 12) *)
Theorem C08_temporal_raw : forall t u raw rest,
  t = 10 \/ t = 12 \/ t = 7 \/ t = 11 -> Nlen raw < 256 ->
  parse_value fpext (b_of_N (Nlen raw) :: raw ++ rest) t u =
    ROk (match t with 10 => PIDate raw | 11 => PITime raw | _ => PIDatetime raw end, rest).
Proof. by_lemma parse_temporal. Qed.

(* conversions to Rust types yield the encoded value -- including microseconds *)
Theorem C08_convert_datetime_micros : forall y m d h mi s us,
  y < 65536 -> m < 256 -> d < 256 -> valid_ymd (Z.of_N y) m d = true -> h < 24 -> mi < 60 -> s < 60 -> us < 1000000 ->
  convert fptrunc KDatetime
    (PIDatetime (le_bytes 2 y ++ [b_of_N m; b_of_N d; b_of_N h; b_of_N mi; b_of_N s] ++ le_bytes 4 us))
    = ROk (Some (CvDateTime (Z.of_N y) m d h mi s (us * 1000))).
Proof. by_lemma convert_datetime11_exact. Qed.
Theorem C08_convert_datetime_date_only : forall y m d,
  y < 65536 -> m < 256 -> d < 256 -> valid_ymd (Z.of_N y) m d = true ->
  convert fptrunc KDatetime (PIDatetime (le_bytes 2 y ++ [b_of_N m; b_of_N d]))
    = ROk (Some (CvDateTime (Z.of_N y) m d 0 0 0 0)).
Proof. by_lemma convert_datetime4_exact. Qed.
Theorem C08_convert_datetime_seconds : forall y m d h mi s,
  y < 65536 -> m < 256 -> d < 256 -> valid_ymd (Z.of_N y) m d = true -> h < 24 -> mi < 60 -> s < 60 ->
  convert fptrunc KDatetime (PIDatetime (le_bytes 2 y ++ [b_of_N m; b_of_N d; b_of_N h; b_of_N mi; b_of_N s]))
    = ROk (Some (CvDateTime (Z.of_N y) m d h mi s 0)).
Proof. by_lemma convert_datetime7_exact. Qed.
Theorem C08_convert_date : forall y m d,
  y < 65536 -> m < 256 -> d < 256 -> valid_ymd (Z.of_N y) m d = true ->
  convert fptrunc KDate (PIDate (le_bytes 2 y ++ [b_of_N m; b_of_N d])) = ROk (Some (CvDate (Z.of_N y) m d)).
Proof. by_lemma convert_date_exact. Qed.
Theorem C08_convert_time_micros : forall days h mi s us,
  days < 2 ^ 32 -> h < 256 -> mi < 256 -> s < 256 -> us < 1000000 ->
  convert fptrunc KDur (PITime (x00 :: le_bytes 4 days ++ [b_of_N h; b_of_N mi; b_of_N s] ++ le_bytes 4 us))
    = ROk (Some (CvDur (days * 86400 + h * 3600 + mi * 60 + s) (us * 1000))).
Proof. by_lemma convert_time12_exact. Qed.
Theorem C08_convert_time_seconds : forall days h mi s,
  days < 2 ^ 32 -> h < 256 -> mi < 256 -> s < 256 ->
  convert fptrunc KDur (PITime (x00 :: le_bytes 4 days ++ [b_of_N h; b_of_N mi; b_of_N s]))
    = ROk (Some (CvDur (days * 86400 + h * 3600 + mi * 60 + s) 0)).
Proof. by_lemma convert_time8_exact. Qed.
Theorem C08_convert_time_zero :  convert fptrunc KDur (PITime []) = ROk (Some (CvDur 0 0)).
Proof. by_lemma convert_time0_exact. Qed.
Theorem C08_convert_int : forall (k : conv) (w : N) (signed : bool) (z : Z),
  (k, w, signed) = (KU8, 8, false) \/ (k, w, signed) = (KI8, 8, true) \/
  (k, w, signed) = (KU16, 16, false) \/ (k, w, signed) = (KI16, 16, true) \/
  (k, w, signed) = (KU32, 32, false) \/ (k, w, signed) = (KI32, 32, true) ->
  (if signed then - 2 ^ (Z.of_N w - 1) <= z < 2 ^ (Z.of_N w - 1) else 0 <= z < 2 ^ Z.of_N w)%Z ->
  convert fptrunc k (PIInt z) = ROk (Some (CvInt z)) /\
  (0 <= z -> convert fptrunc k (PIUInt (Z.to_N z)) = ROk (Some (CvInt z)))%Z.
Proof. by_lemma convert_int_exact. Qed.
Theorem C08_convert_u64 : forall n, n < 2 ^ 64 -> convert fptrunc KU64 (PIUInt n) = ROk (Some (CvInt (Z.of_N n))).
Proof. by_lemma convert_u64_exact. Qed.
Theorem C08_convert_i64 : forall z, (- 2 ^ 63 <= z < 2 ^ 63)%Z -> convert fptrunc KI64 (PIInt z) = ROk (Some (CvInt z)).
Proof. by_lemma convert_i64_exact. Qed.
Theorem C08_convert_bytes : forall bs, convert fptrunc KBytes (PIBytes bs) = ROk (Some (CvBytes bs)).
Proof. by_lemma convert_bytes_exact. Qed.
Theorem C08_convert_str : forall bs, utf8_valid bs = true -> convert fptrunc KStr (PIBytes bs) = ROk (Some (CvBytes bs)).
Proof. by_lemma convert_str_exact. Qed.
Theorem C08_convert_f64 : forall bits, convert fptrunc KF64 (PIDouble bits) = ROk (Some (CvF64 bits)).
Proof. by_lemma convert_f64_exact. Qed.
(* f32: under the oracle hypothesis that narrowing undoes widening *)
Theorem C08_convert_f32_partial : forall bits, fptrunc (fpext bits) = bits ->
  convert fptrunc KF32 (PIDouble (fpext bits)) = ROk (Some (CvF32 bits)).
Proof. by_lemma convert_f32_exact. Qed.

End WithOracles.
