(* C20  No client byte sequence can crash or wedge a connection.  Property theorems only.
   The unchanged code does NOT satisfy the property outright: four classes of client input still
   panic (known findings D14, listed in /verif/known_findings.json).  Accordingly:
     - C20_terminates:     for ALL inputs the connection terminates (no loop runs forever);
     - C20_only_known:     for ALL inputs, every panic is one of the listed known sites
                           (for shims that cannot panic by themselves);
     - C20_*_refuted:      each listed site is really reachable (witness replays, also run on the real code). *)
From MsqlVerif Require Import Model.Server Model.ErrTab Proofs.Totality Proofs.Witnesses.
Open Scope N_scope.

(* termination: for EVERY world (any bytes, any chunking, any fault plan), configuration and shim
   script, the fuel computed from the input suffices -- none of the loops (write_all, packet
   reassembly, next, the command loop) runs forever *)
Theorem C20_terminates : forall fpext fptrunc errtab cfg sc s,
  fst (run_on fpext fptrunc errtab cfg sc s) <> RPanic POutOfFuel.
Proof. exact run_on_total. Qed.

(* every panic, for every input, is at one of the named sites *)
Theorem C20_panic_sites : forall fpext fptrunc errtab cfg sc s p,
  fst (run_on fpext fptrunc errtab cfg sc s) = RPanic p -> In p (client_sites ++ shim_sites).
Proof. exact run_on_panics. Qed.

(* ... and when the shim cannot panic by itself (no From<Value> conversion requested, only defined
   error kinds, no NULL hidden in a Some), ONLY the known client-reachable sites remain:
   malformed COM_STMT_EXECUTE parameter blocks (D14; PFragSeq is listed in client_sites but has been
   unreachable since the D9 fix: next() never panics, see Proofs/Totality.v next_panics) *)
Theorem C20_only_known : forall fpext fptrunc errtab cfg sc s p,
  scripts_tame errtab sc ->
  fst (run_on fpext fptrunc errtab cfg sc s) = RPanic p -> In p client_sites.
Proof. exact run_on_panics_tame. Qed.

(* each reading loop consumes input: a packet costs at least its 4 header bytes *)
Theorem C20_progress : forall s x s',
  next s = (ROk (Some x), s') -> (inbound_len s' + 4 <= inbound_len s)%nat.
Proof. exact next_consumes. Qed.

(* the known findings are real: concrete client byte streams (corpus/KF_*.case) on which the model
   -- and, replayed by ./check C20, the real code -- panics at exactly the listed site *)
Theorem C20_params_split_refuted :
  fst (run_on idN idN errtab cfg0 kf_params_split_scripts kf_params_split_world) = RPanic PParamsSplitNull.
Proof. exact kf_params_split_panics. Qed.
Theorem C20_params_bad_type_refuted :
  fst (run_on idN idN errtab cfg0 kf_params_bad_type_scripts kf_params_bad_type_world) = RPanic PParamsBadType.
Proof. exact kf_params_bad_type_panics. Qed.
Theorem C20_params_bound_index_refuted :
  fst (run_on idN idN errtab cfg0 kf_params_bound_index_scripts kf_params_bound_index_world) = RPanic PParamsBoundIndex.
Proof. exact kf_params_bound_index_panics. Qed.
Theorem C20_params_value_refuted :
  fst (run_on idN idN errtab cfg0 kf_params_value_scripts kf_params_value_world) = RPanic PParamsValue.
Proof. exact kf_params_value_panics. Qed.
