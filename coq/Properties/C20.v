(* C20  No client byte sequence can crash or wedge a connection.  Property theorems only.
   (On the tree as found this was false in six ways -- D5, D6, D9 and the four D14 classes, see
   known_findings.json -> fixed; all are repaired and their replays are re-run first by ./check C20.) *)
From MsqlVerif Require Import Model.Server Model.ErrTab Proofs.Totality Proofs.Witnesses.
Open Scope N_scope.

(* NEVER A PANIC: for EVERY world -- any client bytes (malformed handshakes, unknown or truncated
   commands, inconsistent parameter blocks, out-of-order fragment ids, any sequence id), any chunking,
   any transport fault plan -- every configuration and every shim that does not panic by itself
   (no From<Value> conversion requested, only defined error kinds, no NULL hidden in a Some) *)
Theorem C20_never_panics : forall fpext fptrunc errtab cfg sc s p,
  scripts_tame errtab sc ->
  fst (run_on fpext fptrunc errtab cfg sc s) <> RPanic p.
Proof. exact run_on_never_panics_tame. Qed.

(* NEVER WEDGED: for every world, configuration and shim script whatsoever, the fuel computed from
   the input suffices -- none of the loops (write_all, packet reassembly, next, the command loop)
   runs forever *)
Theorem C20_terminates : forall fpext fptrunc errtab cfg sc s,
  fst (run_on fpext fptrunc errtab cfg sc s) <> RPanic POutOfFuel.
Proof. exact run_on_total. Qed.
(* each reading loop consumes input: a packet costs at least its 4 header bytes *)
Theorem C20_progress : forall s x s',
  next s = (ROk (Some x), s') -> (inbound_len s' + 4 <= inbound_len s)%nat.
Proof. exact next_consumes. Qed.

(* for arbitrary shims: every panic is at one of the named sites, and the only ones a shim can cause
   are its own (conversion of a mistyped parameter, undefined error kind, NULL below a Some) *)
Theorem C20_panic_sites : forall fpext fptrunc errtab cfg sc s p,
  fst (run_on fpext fptrunc errtab cfg sc s) = RPanic p -> In p (client_sites ++ shim_sites).
Proof. exact run_on_panics. Qed.

(* the inputs that used to panic (corpus/D14_*.case, D9_*.case) are now answered with an error *)
Theorem C20_params_split_is_error :
  fst (run_on idN idN errtab cfg0 d14_params_split_scripts d14_params_split_world) = RErr EInvalidData.
Proof. exact d14_params_split_is_error. Qed.
Theorem C20_params_bad_type_is_error :
  fst (run_on idN idN errtab cfg0 d14_params_bad_type_scripts d14_params_bad_type_world) = RErr EInvalidData.
Proof. exact d14_params_bad_type_is_error. Qed.
Theorem C20_params_bound_index_is_error :
  fst (run_on idN idN errtab cfg0 d14_params_bound_index_scripts d14_params_bound_index_world) = RErr EInvalidData.
Proof. exact d14_params_bound_index_is_error. Qed.
Theorem C20_params_value_is_error :
  fst (run_on idN idN errtab cfg0 d14_params_value_scripts d14_params_value_world) = RErr EInvalidData.
Proof. exact d14_params_value_is_error. Qed.
Theorem C20_fragment_ids_is_error :
  fst (run_on idN idN errtab cfg0 d9_fragment_ids_scripts d9_fragment_ids_world) = RErr EInvalidData.
Proof. exact d9_fragment_ids_is_error. Qed.
