(* C16  Bound parameter types persist per statement across executions.  Property theorems only. *)
From MsqlVerif Require Import Model.Server Spec.Render Spec.AbsServer Spec.ClientEnc Spec.History
  Proofs.ParamsDecode Proofs.History.
Open Scope N_scope.

(* an execution that omits the types is decoded with the types of the most recent execution of the
   SAME statement that carried them; the delivered values are what the client encoded with them *)
Theorem C16_execution : forall fpext fptrunc errtab id ps b st sc h v inners x sc' msgs,
  reg_matches st h -> abs_stmt h id = Some v ->
  v_params v = Nlen ps -> Nlen ps < 65536 ->
  (b = true -> types_ok ps) ->
  (b = false -> length (v_types v) = length ps) ->
  delivered_all fpext (v_long v) (if b then types_of ps else v_types v) 0 ps = Some inners ->
  pop_x sc = (x, sc') -> x_pull x = None -> x_convs x = [] -> x_ret x = None ->
  pm_q errtab true None (x_prog x) = Some msgs ->
  exists st',
    abs_handle fpext fptrunc errtab (CmdExecute id (exec_block ps b)) (st, sc) =
      Some ({| a_calls := CExecute id :: param_calls (if b then types_of ps else v_types v) inners;
               a_msgs := msgs |}, (st', sc')) /\
    reg_matches st' (h ++ [HExec id ps b]).
Proof. exact exec_delivers. Qed.
(* the types bound for the statement follow the history however many parameters the shim pulls --
   including none at all (bound at validation time) *)
Theorem C16_registry_any_pull : forall fpext fptrunc errtab id ps b st sc h v rep st' sc',
  reg_matches st h -> abs_stmt h id = Some v ->
  v_params v = Nlen ps -> Nlen ps < 65536 ->
  (b = true -> types_ok ps) ->
  abs_handle fpext fptrunc errtab (CmdExecute id (exec_block ps b)) (st, sc) = Some (rep, (st', sc')) ->
  reg_matches st' (h ++ [HExec id ps b]).
Proof. exact exec_registry_any_pull. Qed.
Theorem C16_reuse_block : forall fpext fptrunc ps long bound0 inners,
  Nlen ps < 65536 -> length bound0 = length ps ->
  delivered_all fpext long bound0 0 ps = Some inners ->
  exists final,
    abs_pull fpext fptrunc (S (length ps)) None [] (pstate0 (Nlen ps) (exec_block ps false) long bound0)
      = Some (param_calls bound0 inners, final) /\
    p_bound final = bound0 /\ p_input final = [].
Proof. exact pull_reuse. Qed.

(* types bound for one statement never influence another *)
Theorem C16_isolation : forall h e id,
  (match e with
   | HPrepare i _ | HClose i | HExec i _ _ | HLong i _ _ => i <> id
   | HOther => True end) ->
  abs_stmt (h ++ [e]) id = abs_stmt h id.
Proof. exact hist_isolation. Qed.
(* a later rebind replaces the earlier types completely; a reuse keeps them *)
Theorem C16_rebind_replaces : forall h id ps,
  live h id = true -> ps <> [] -> latest_types (h ++ [HExec id ps true]) id = Proofs.ParamsDecode.types_of ps.
Proof. exact hist_rebind. Qed.
Theorem C16_reuse_keeps : forall h id ps, latest_types (h ++ [HExec id ps false]) id = latest_types h id.
Proof. exact hist_reuse. Qed.
