(* C15  Integer results are exact or refused, never silently altered.
   Property theorems only (closed by `exact`), plus non-vacuity examples. *)
From MsqlVerif Require Import Model.Value Spec.Client Spec.Render Proofs.ValueClient.
Open Scope Z_scope.

(* for EVERY Rust integer type, EVERY value of it, EVERY integer column type and signedness:
   if the write is accepted, the client decodes exactly the same number *)
Theorem C15_exact : forall t z ct csigned bs rest,
  ity_in_range t z = true ->
  encode_int t z ct csigned = ROk bs ->
  c_bin_value ct (negb csigned) (bs ++ rest) = Some (BInt z, rest).
Proof. exact encode_int_exact. Qed.

(* accepted whenever the column's range contains the whole range of the fixed-width type *)
Theorem C15_accept_fixed : forall t z ct csigned w,
  t <> Usize -> t <> Isize ->
  int_col_bytes ct = Some w ->
  int_lo w csigned <= int_lo (ity_bytes t) (ity_signed t) ->
  int_hi (ity_bytes t) (ity_signed t) <= int_hi w csigned ->
  ity_in_range t z = true ->
  exists bs, encode_int t z ct csigned = ROk bs.
Proof. exact encode_int_accept_fixed. Qed.

(* pointer-sized integers: accepted whenever the column's range contains the value *)
Theorem C15_accept_ptr : forall t z ct csigned w,
  t = Usize \/ t = Isize ->
  int_col_bytes ct = Some w ->
  in_int_range w csigned z = true ->
  exists bs, encode_int t z ct csigned = ROk bs.
Proof. exact encode_int_accept_ptr. Qed.

(* refusal is an error value, never a panic *)
Theorem C15_no_panic : forall t z ct csigned s, encode_int t z ct csigned <> RPanic s.
Proof. exact encode_int_no_panic. Qed.

(* the same through generic integer values (mysql_common Value::Int) *)
Theorem C15_generic_exact : forall z ct csigned bs rest,
  - 2 ^ 63 <= z < 2 ^ 63 ->
  encode_myc_int z ct csigned = ROk bs ->
  c_bin_value ct (negb csigned) (bs ++ rest) = Some (BInt z, rest).
Proof. exact encode_myc_int_exact. Qed.
Theorem C15_generic_accept : forall z ct csigned w,
  - 2 ^ 63 <= z < 2 ^ 63 ->
  int_col_bytes ct = Some w -> in_int_range w csigned z = true ->
  exists bs, encode_myc_int z ct csigned = ROk bs.
Proof. exact encode_myc_int_accept. Qed.

(* non-vacuity: the cases that were wrong before the fix (see known_findings.json, D4) *)
Example C15_examples :
  encode_int I8 (-1) 8 false = RErr EInvalidData /\            (* -1i8 into unsigned BIGINT: refused *)
  encode_int Usize 5 8 true = ROk (le_bytes_z 8 5) /\          (* 5usize into signed BIGINT: accepted *)
  encode_int Isize 5 8 false = ROk (le_bytes_z 8 5) /\
  encode_int U8 200 2 true = ROk (le_bytes_z 2 200) /\         (* widening *)
  encode_int U8 200 1 true = RErr EInvalidData.                (* 200u8 does not fit a signed TINYINT column *)
Proof. vm_compute. repeat split; reflexivity. Qed.
