(* C04  Outbound bytes are well-framed, including messages of 16 MiB and more.
   Property theorems only (closed by `exact`), the tie to src/packet.rs's constants, examples. *)
From MsqlVerif Require Import Model.Packet Spec.Frame Proofs.PacketWrite Gen.Consts.
Open Scope N_scope.

(* any sequence of logical messages sent from a clean connection puts on the transport exactly
   their canonical framing -- for EVERY packet limit M and EVERY message size: maximal packets,
   then a shorter (possibly empty) one, consecutive sequence ids *)
Theorem C04_framing : forall msgs s,
  s_fault s = WNone -> 0 < s_lim s -> s_seq s < 256 -> s_tw s = [] -> s_cont s = false ->
  Forall (fun m => m <> []) msgs ->
  exists s',
    send_all msgs s = (ROk tt, s') /\ s_tw s' = [] /\ s_cont s' = false /\
    emitted s s' (frame_all_pkts (s_lim s) (s_seq s) msgs) /\
    s_seq s' = seq_after (s_lim s) (s_seq s) msgs.
Proof. exact send_all_frame_all. Qed.

(* ... however the caller cuts the message into writes *)
Theorem C04_any_write_sizes : forall a b s,
  0 < s_lim s -> Nlen (s_tw s) < s_lim s ->
  write_all (a ++ b) s = (write_all a ;;; write_all b) s.
Proof. exact write_all_app. Qed.

(* ... also when part of the message is already buffered (rows written cell by cell) *)
Theorem C04_finish_message : forall p s,
  s_fault s = WNone -> 0 < s_lim s -> s_seq s < 256 -> Nlen (s_tw s) < s_lim s ->
  exists s',
    (write_bytes p ;;; end_packet) s = (ROk tt, s') /\
    s_tw s' = [] /\ s_cont s' = false /\
    (if (match s_tw s ++ p with [] => true | _ => false end) && negb (s_cont s)
     then s' = s
     else emitted s s' (frame_pkts (s_lim s) (s_seq s) (s_tw s ++ p)) /\
          s_seq s' = (s_seq s + npackets (s_lim s) (s_tw s ++ p)) mod 256).
Proof. exact finish_msg. Qed.

(* shape of the framing: every header length equals its payload length, non-final packets are
   exactly M long, the final one is shorter (empty for an exact multiple) *)
Theorem C04_packet_shape : forall lim q p, 0 < lim -> lim < 2 ^ 24 -> q < 256 ->
  exists bodies last,
    p = concat bodies ++ last /\ Forall (fun b => Nlen b = lim) bodies /\ Nlen last < lim /\
    frame_pkts lim q p =
      map (fun '(i, b) => le_bytes 3 lim ++ b_of_N ((q + N.of_nat i) mod 256) :: b)
          (combine (seq 0 (length bodies)) bodies)
      ++ [le_bytes 3 (Nlen last) ++ b_of_N ((q + Nlen bodies) mod 256) :: last].
Proof. exact frame_pkts_shape. Qed.

(* client-side reassembly of the framing yields exactly the messages the server meant to send *)
Theorem C04_client_reassembles : forall lim q msgs,
  0 < lim -> lim < 2 ^ 24 -> q < 256 ->
  exists l, deframe lim (frame_all lim q msgs) = Some l /\ map (fun x => snd x) l = msgs.
Proof. exact deframe_frame_all. Qed.

(* tie: the limit the code uses (translated from src/packet.rs on every run) is 2^24-1 *)
Theorem C04_constants : U24_MAX = 16777215 /\ 0 < U24_MAX /\ U24_MAX < 2 ^ 24.
Proof. vm_compute. repeat split; reflexivity. Qed.

(* non-vacuity: at M = 3 a 6-byte message (exact multiple) and a 4-byte message *)
Example C04_example :
  frame_all 3 254 [[x61; x62; x63; x64; x65; x66]; [x67; x68; x69; x6a]] =
    [x03; x00; x00; xfe; x61; x62; x63] ++ [x03; x00; x00; xff; x64; x65; x66] ++ [x00; x00; x00; x00] ++
    [x03; x00; x00; x01; x67; x68; x69] ++ [x01; x00; x00; x02; x6a].
Proof. vm_compute. reflexivity. Qed.
