(* C13  Errors reach the client with the exact code, SQLSTATE and message.  Property theorems only.
   The table theorems are about Gen/ErrorCodes.v, regenerated from src/errorcodes.rs on every run. *)
From MsqlVerif Require Import Model.Codec Model.ErrTab Gen.ErrorCodes Spec.Client Spec.ErrRef
  Proofs.CodecClient Proofs.ErrTable.
From Coq Require Import String.
Open Scope N_scope.

(* the ERR packet: code, 5-byte SQLSTATE and the message bytes unchanged -- ANY message (empty,
   long, non-UTF-8, containing '#', NUL or 0xFF) *)
Theorem C13_err_roundtrip : forall code state msg,
  code < 65536 -> List.length state = 5%nat ->
  c_err (err_body code state msg) = Some {| err_code := code; err_state := state; err_msg := msg |}.
Proof. exact err_roundtrip. Qed.

(* what write_err(ErrorKind::from(code), ..) puts on the wire is that very code and a 5-byte state *)
Theorem C13_wire_code : forall code c st,
  errtab code = Some (c, st) -> c = code /\ c < 65536 /\ List.length st = 5%nat.
Proof. exact errtab_spec. Qed.

(* kinds <-> codes convert both ways without loss, for EVERY defined kind *)
Theorem C13_kind_code_kind : forall idx c, kind_code idx = Some c -> from_u16 c = Some idx.
Proof. exact code_from. Qed.
Theorem C13_code_kind_code : forall c idx, from_u16 c = Some idx -> kind_code idx = Some c.
Proof. exact from_code. Qed.
Theorem C13_codes_distinct : NoDup kind_codes.
Proof. exact codes_distinct. Qed.
Theorem C13_every_kind_has_state : forall idx c,
  kind_code idx = Some c -> exists st, sqlstate idx = Some st /\ List.length st = 5%nat.
Proof. exact sqlstate_five. Qed.

(* the table still says what MySQL/MariaDB say (pinned reference: names, codes, SQLSTATEs) *)
Theorem C13_reference : 
  Forall (fun e => let '(name, code, st) := e in
            exists idx, name_entry name = Some (idx, code) /\ sqlstate idx = Some st /\ errtab code = Some (code, st))
         err_ref.
Proof. exact table_extends_reference. Qed.

Example C13_example : errtab 1045 = Some (1045, [x32; x38; x30; x30; x30]).
Proof. exact access_denied. Qed.
