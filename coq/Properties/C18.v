(* C18  TLS upgrade loses no bytes and leaks no plaintext.  Property theorems only.
   PARTIAL BY NATURE: the TLS engine (rustls: handshake, record layer, certificates) is opaque to the
   model.  Proved is this crate's part of the upgrade; "after the upgrade nothing is sent in plaintext"
   and "the handshake completes for every split point" are checked on the real code with a real
   rustls client by ./check C18 (every server byte after the greeting must parse as TLS records). *)
From MsqlVerif Require Import Model.Server Model.Tls Spec.Frame Spec.ClientEnc
  Proofs.PacketRead Proofs.RunRender Proofs.ServerInit Proofs.TlsRouting.
Open Scope N_scope.

(* the SSL request (a 32-byte 4.1 response with CLIENT_SSL and no user name) is recognised as such *)
Theorem C18_ssl_request : forall caps maxps charset reserved,
  caps < 2 ^ 32 -> maxps < 2 ^ 32 -> length reserved = 23%nat ->
  has_flag caps CLIENT_PROTOCOL_41 = true -> has_flag caps CLIENT_SSL = true ->
  client_handshake (ssl_request caps maxps charset reserved) false = HOk true None.
Proof. exact ssl_request_no_user. Qed.

(* every byte the client sent after the SSL request packet is offered to the TLS engine, each exactly
   once and in order, for EVERY position of the read boundaries relative to the SSL request /
   ClientHello boundary (any coalescing, any splitting); the plaintext parser consumes nothing of it;
   no callback has been invoked yet *)
Theorem C18_routing : forall cfg s q req user tls_bytes,
  fresh s -> q < 256 -> cfg_tls cfg = true ->
  inbound s = frame (s_lim s) q req ++ tls_bytes ->
  client_handshake req false = HOk true user ->
  exists s1,
    init_phase1 cfg s = (ROk (P1Switch tls_bytes), s1) /\
    s_buf s1 = [] /\ no_calls s1 /\ s_seq s1 = (last_seq (s_lim s) q req + 1) mod 256.
Proof. exact tls_routing. Qed.

(* a client that requests TLS from a shim that offers none is refused with an error before
   after_authentication is called *)
Theorem C18_refused : forall fpext fptrunc errtab cfg sc plain s q req user tls_bytes,
  fresh s -> q < 256 -> cfg_tls cfg = false ->
  inbound s = frame (s_lim s) q req ++ tls_bytes ->
  client_handshake req false = HOk true user ->
  exists s1, run_on_tls fpext fptrunc errtab cfg sc plain s = (RErr EInvalidData, s1) /\ no_calls s1.
Proof. exact tls_refused. Qed.

(* after the switch: the user name of the encrypted handshake response reaches after_authentication
   (parsed with after_tls = true: the name is read although CLIENT_SSL is set), OK carries the next id;
   what follows (the commands) is served by the very same run loop as over plaintext *)
Theorem C18_encrypted_handshake : forall errtab cfg s2 q hs user ssl rest,
  clean s2 -> s_lim s2 < 2 ^ 24 -> all_data (s_reads s2) -> q < 256 -> cfg_auth cfg = None ->
  inbound s2 = frame (s_lim s2) q hs ++ rest ->
  client_handshake hs true = HOk ssl user ->
  exists s3 rd,
    init_phase2 errtab cfg s2 = (ROk tt, s3) /\ only_reads rd /\
    s_trace s3 =
      EFlush :: rev (map EWrite (frame_pkts (s_lim s2) ((last_seq (s_lim s2) q hs + 1) mod 256) (ok_body 0 0 0)))
      ++ ECall (CAuth user) :: rev rd ++ s_trace s2 /\
    inbound s3 = rest /\ all_data (s_reads s3) /\ clean s3 /\ s_lim s3 = s_lim s2.
Proof. exact tls_phase2_accept. Qed.
Theorem C18_username_after_tls : forall caps maxps charset reserved user tail,
  caps < 2 ^ 32 -> maxps < 2 ^ 32 -> length reserved = 23%nat -> no_nul user ->
  has_flag caps CLIENT_PROTOCOL_41 = true ->
  client_handshake (hs41 caps maxps charset reserved user tail) true = HOk (has_flag caps CLIENT_SSL) (Some user).
Proof. intros; apply username_41; auto. Qed.

(* a client that does not request TLS is served by the TLS-aware entry point exactly as by the plain one *)
Theorem C18_plain_unchanged : forall fpext fptrunc errtab cfg sc plain s q hs user rest,
  fresh s -> q < 256 ->
  inbound s = frame (s_lim s) q hs ++ rest ->
  client_handshake hs false = HOk false user ->
  run_on_tls fpext fptrunc errtab cfg sc plain s = run_on fpext fptrunc errtab cfg sc s.
Proof. exact tls_plain_same. Qed.

(* "loses no bytes" for the EXACT reader the engine is given (PrependedReader = Chain<Cursor<Vec>, T>,
   Model/Prepend.v), started as switch_to_tls starts it (buffered tail, cursor not yet exhausted): for
   every sequence of buffer sizes the engine reads with, what it received so far followed by what is
   still pending (rest of the tail, then the socket) is exactly  tail ++ socket data  -- nothing lost,
   duplicated or reordered; and while tail bytes remain the socket is not touched *)
From MsqlVerif Require Import Model.Prepend Proofs.PrependNoLoss.
Theorem C18_exact_reader_no_loss : forall caps tail s,
  Forall (fun c => (0 < c)%nat) caps -> all_data (s_reads s) ->
  exists out p' s',
    prd_reads caps {| pr_pre := tail; pr_done := false |} s = (ROk out, p', s') /\ all_data (s_reads s') /\
    out ++ pr_pre p' ++ reads_data (s_reads s') = tail ++ reads_data (s_reads s).
Proof.
  intros caps tail s Hc Hd.
  exact (prepend_no_loss caps {| pr_pre := tail; pr_done := false |} s Hc (fun H => False_ind _ (Bool.diff_false_true H)) Hd).
Qed.
Theorem C18_exact_reader_tail_first : forall cap p s,
  (0 < cap)%nat -> pr_done p = false -> pr_pre p <> [] ->
  prd_read cap p s = (ROk (firstn cap (pr_pre p)), {| pr_pre := skipn cap (pr_pre p); pr_done := false |}, s).
Proof. exact prepend_prefix_first. Qed.
