(* C07  Binary-protocol rows arrive unchanged, with an exact NULL bitmap.  Property theorems only. *)
From MsqlVerif Require Import Model.Value Model.Resultset Spec.Client Spec.Render
  Proofs.ValueClient Proofs.CodecClient Proofs.ClientRender.
Open Scope N_scope.

(* a whole binary row, for ANY number of columns and ANY pattern of NULLs: decoded with the
   advertised column types and flags to exactly the values written *)
Theorem C07_rows : forall cols vs r,
  cols <> [] -> length vs = length cols ->
  Forall val_ok vs -> Forall col_ok cols ->
  p_write_cols true cols prow0 vs = Some r ->
  c_bin_row cols (pr_cur r ++ pr_data r) =
    Some (map (fun vc => bcell (fst vc) (snd vc)) (combine vs cols)).
Proof. exact bin_row_decode. Qed.

(* the NULL bitmap marks precisely the NULL cells: length (n+9)/8, bit c+2 set iff cell c is NULL,
   all other bits clear *)
Theorem C07_bitmap_exact : forall cols vs r,
  cols <> [] -> length vs = length cols ->
  p_write_cols true cols prow0 vs = Some r ->
  exists bm rest,
    pr_data r = bm ++ rest /\ length bm = Nat.div (length cols + 7 + 2) 8 /\
    forall pos, (pos < 8 * length bm)%nat ->
      bitmap_bit bm pos =
        match (pos ?= 2)%nat with
        | Lt => false
        | _ => match nth_error vs (pos - 2) with Some v => is_null v | None => false end
        end.
Proof. exact bin_row_bitmap. Qed.

(* every accepted value, of every implementor, under every column type that accepts it *)
Theorem C07_value : forall v c bs rest,
  val_ok v -> to_bin v c = ROk bs ->
  c_bin_value (c_type c) (has_flag (c_flags c) UNSIGNED_FLAG) (bs ++ rest) = Some (bin_denote v c, rest).
Proof. exact to_bin_decode. Qed.

(* refusal: a NULL for a NOT NULL column ... *)
Theorem C07_null_refused : forall cols r v c,
  nth_error cols (pr_col r) = Some c -> is_null v = true ->
  has_flag (c_flags c) NOT_NULL_FLAG = true ->
  p_write_col true cols r v = None.
Proof. exact write_col_refuses_null. Qed.
(* ... and a value of a kind the column type cannot carry is never encoded *)
Theorem C07_kind_refused : forall v c bs,
  to_bin v c = ROk bs ->
  match bin_denote v c with
  | BInt _ => int_col_bytes (c_type c) <> None
  | BF32 _ => c_type c = 4
  | BF64 _ => c_type c = 5
  | BBytes _ => is_bytes_type (c_type c) = true
  | BDate _ _ _ _ _ _ _ => c_type c = 10 \/ c_type c = 12 \/ c_type c = 7
  | BTime _ _ _ _ _ _ => c_type c = 11
  | BNull => False
  end.
Proof. exact to_bin_kind. Qed.

Example C07_example :
  let cols := [{| c_table := []; c_name := [x61]; c_type := 3; c_flags := 0 |};
               {| c_table := []; c_name := [x62]; c_type := 253; c_flags := 0 |};
               {| c_table := []; c_name := [x63]; c_type := 12; c_flags := 0 |}] in
  match p_write_cols true cols prow0 [VRef VNone; VBytes [x68; x69]; VDateTime 2020 2 29 1 2 3 4000] with
  | Some r => c_bin_row cols (pr_cur r ++ pr_data r) = Some [BNull; BBytes [x68; x69]; BDate 2020 2 29 1 2 3 4]
  | None => False end.
Proof. vm_compute. reflexivity. Qed.
