(* C11  Greeting is well-formed and no command is served before the shim authenticates.  Property theorems only. *)
From MsqlVerif Require Import Model.Server Spec.Frame Spec.Client Spec.ClientEnc
  Proofs.PacketRead Proofs.RunRender Proofs.CodecClient Proofs.ServerInit.
Open Scope N_scope.

(* one well-formed protocol-10 greeting advertising the 4.1 protocol, and TLS exactly when configured *)
Theorem C11_greeting : forall tls,
  exists g, c_greeting (greeting_body tls) = Some g /\
    g_proto g = 10 /\ has_flag (g_caps g) CLIENT_PROTOCOL_41 = true /\
    has_flag (g_caps g) CLIENT_SSL = tls /\ g_charset g = 33 /\ g_status g = 0.
Proof. exact greeting_roundtrip. Qed.

(* the user name reaches the server exactly as sent: any non-NUL bytes (empty, non-UTF-8), any
   capability mask, any trailing auth/db/plugin data; 4.1 and 3.20 layouts *)
Theorem C11_username_41 : forall caps maxps charset reserved user tail after_tls,
  caps < 2 ^ 32 -> maxps < 2 ^ 32 -> length reserved = 23%nat -> no_nul user ->
  has_flag caps CLIENT_PROTOCOL_41 = true ->
  (after_tls = true \/ has_flag caps CLIENT_SSL = false) ->
  client_handshake (hs41 caps maxps charset reserved user tail) after_tls
    = HOk (has_flag caps CLIENT_SSL) (Some user).
Proof. exact username_41. Qed.
Theorem C11_username_320 : forall caps maxps user tail after_tls,
  caps < 2 ^ 16 -> maxps < 2 ^ 24 -> no_nul user ->
  has_flag caps CLIENT_PROTOCOL_41 = false ->
  client_handshake (hs320 caps maxps user tail) after_tls = HOk (has_flag caps CLIENT_SSL) (Some user).
Proof. exact username_320. Qed.

(* accept: greeting (id 0), exactly one after_authentication, OK carrying the next sequence id; the
   commands pipelined behind the handshake stay buffered and are served afterwards *)
Theorem C11_accept : forall errtab cfg s q hs user rest,
  fresh s -> q < 256 -> cfg_auth cfg = None ->
  inbound s = frame (s_lim s) q hs ++ rest ->
  client_handshake hs false = HOk false user ->
  exists s' rd,
    init errtab cfg s = (ROk tt, s') /\ only_reads rd /\
    s_trace s' =
      EFlush :: rev (map EWrite (frame_pkts (s_lim s) ((last_seq (s_lim s) q hs + 1) mod 256) (ok_body 0 0 0)))
      ++ ECall (CAuth user) :: rev rd
      ++ EFlush :: rev (map EWrite (frame_pkts (s_lim s) 0 (greeting_body (cfg_tls cfg)))) /\
    inbound s' = rest /\ all_data (s_reads s') /\ clean s' /\ s_lim s' = s_lim s.
Proof. exact init_accept. Qed.

(* reject: ERR 1045 / 28000, run_on returns the shim's error, no other callback is ever invoked *)
Theorem C11_reject : forall errtab cfg s q hs user rest tag st,
  fresh s -> q < 256 -> cfg_auth cfg = Some tag ->
  errtab 1045 = Some (1045, st) ->
  inbound s = frame (s_lim s) q hs ++ rest ->
  client_handshake hs false = HOk false user ->
  exists s' rd,
    init errtab cfg s = (RErr (EShim tag), s') /\ only_reads rd /\
    s_trace s' =
      EFlush :: rev (map EWrite (frame_pkts (s_lim s) ((last_seq (s_lim s) q hs + 1) mod 256)
                                            (err_body 1045 st auth_failed_msg)))
      ++ ECall (CAuth user) :: rev rd
      ++ EFlush :: rev (map EWrite (frame_pkts (s_lim s) 0 (greeting_body (cfg_tls cfg)))).
Proof. exact init_reject. Qed.

(* malformed or missing handshake response: an error and no callback at all *)
Theorem C11_bad_handshake : forall errtab cfg s q hs e rest,
  fresh s -> q < 256 ->
  inbound s = frame (s_lim s) q hs ++ rest ->
  client_handshake hs false = HErr e ->
  exists s', init errtab cfg s = (RErr e, s') /\
             Forall (fun ev => match ev with ECall _ => False | _ => True end) (s_trace s').
Proof. exact init_bad_handshake. Qed.
Theorem C11_no_handshake : forall errtab cfg s,
  fresh s -> inbound s = [] ->
  exists s', init errtab cfg s = (RErr EConnAborted, s') /\
             Forall (fun ev => match ev with ECall _ => False | _ => True end) (s_trace s').
Proof. exact init_no_handshake. Qed.
