(* C05  Response sequence ids continue the request's and wrap modulo 256.  Property theorems only. *)
From MsqlVerif Require Import Model.Server Spec.Frame Spec.AbsServer Proofs.PacketWrite Proofs.PacketRead
  Proofs.RunRender Proofs.ServerRun Proofs.ServerInit Proofs.Extras.
Open Scope N_scope.

(* the k-th packet of an exchange that starts at id q carries (q + k) mod 256, for ANY number of
   packets (responses of more than 255 packets wrap instead of stalling or repeating), and every
   header length equals its payload length *)
Theorem C05_consecutive_mod_256 : forall lim q msgs k pkt,
  0 < lim -> lim < 2 ^ 24 -> q < 256 ->
  nth_error (frame_all_pkts lim q msgs) k = Some pkt ->
  pkt_seq pkt = Some ((q + N.of_nat k) mod 256) /\ pkt_len_ok pkt.
Proof. exact frame_all_pkts_ids. Qed.

(* in a served conversation (any commands, any request ids, multi-packet requests included, any
   chunking) the reply to each command is framed from (id of the request's LAST packet + 1) mod 256:
   the counter restarts with every command (see conv_trace: `writes_of body = frame_all_pkts lim
   ((last_seq lim q p + 1) mod 256) msgs`) *)
Theorem C05_reply_continues_request : forall fpext fptrunc errtab cmds ss0 reps ss1 fuel s,
  wf_conn s -> Forall (fun c => fst c < 256) cmds ->
  inbound s = frames (s_lim s) cmds ->
  abs_run fpext fptrunc errtab cmds ss0 = Some (reps, ss1) ->
  (length cmds < fuel)%nat ->
  exists s' chron,
    run_f fpext fptrunc errtab fuel ss0 s = (ROk tt, s') /\
    s_trace s' = ERead 0 :: rev chron ++ s_trace s /\
    conv_trace (s_lim s) cmds reps chron /\ clean s'.
Proof. exact run_refines. Qed.

(* the greeting carries id 0; the authentication reply continues the handshake response's id *)
Theorem C05_greeting_and_auth : forall errtab cfg s q hs user rest,
  fresh s -> q < 256 -> cfg_auth cfg = None ->
  inbound s = frame (s_lim s) q hs ++ rest ->
  client_handshake hs false = HOk false user ->
  exists s' rd,
    init errtab cfg s = (ROk tt, s') /\ only_reads rd /\
    s_trace s' =
      EFlush :: rev (map EWrite (frame_pkts (s_lim s) ((last_seq (s_lim s) q hs + 1) mod 256) (ok_body 0 0 0)))
      ++ ECall (CAuth user) :: rev rd
      ++ EFlush :: rev (map EWrite (frame_pkts (s_lim s) 0 (greeting_body (cfg_tls cfg)))) /\
    inbound s' = rest /\ all_data (s_reads s') /\ clean s' /\ s_lim s' = s_lim s.
Proof. exact init_accept. Qed.

(* non-vacuity: a request with id 255 is answered from id 0; ids wrap inside a long response *)
Example C05_example :
  (last_seq 16777215 255 [x0e] + 1) mod 256 = 0 /\
  map pkt_seq (frame_all_pkts 2 254 [[x01; x02; x03; x04; x05]; [x06]]) = [Some 254; Some 255; Some 0; Some 1].
Proof. vm_compute. split; reflexivity. Qed.
