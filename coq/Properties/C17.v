(* C17  Long data is concatenated in order, delivered once, and never leaks.  Property theorems only. *)
From MsqlVerif Require Import Model.Server Spec.Render Spec.AbsServer Spec.ClientEnc Spec.History
  Proofs.ParamsDecode Proofs.History.
Open Scope N_scope.

(* chunks for (statement, parameter) are concatenated in arrival order ... *)
Theorem C17_concatenated : forall h id param data,
  live h id = true ->
  pending (h ++ [HLong id param data]) id param =
    Some ((match pending h id param with Some d => d | None => [] end) ++ data).
Proof. exact hist_long_append. Qed.
(* ... without disturbing other parameters or other statements ... *)
Theorem C17_other_parameter : forall h id param param' data,
  param' <> param -> pending (h ++ [HLong id param data]) id param' = pending h id param'.
Proof. exact hist_long_other_param. Qed.
Theorem C17_other_statement : forall h e id,
  (match e with
   | HPrepare i _ | HClose i | HExec i _ _ | HLong i _ _ => i <> id
   | HOther => True end) ->
  abs_stmt (h ++ [e]) id = abs_stmt h id.
Proof. exact hist_isolation. Qed.
(* ... delivered to exactly one execution: afterwards nothing is pending ... *)
Theorem C17_delivered_once : forall h id ps b param, pending (h ++ [HExec id ps b]) id param = None.
Proof. exact hist_exec_consumes. Qed.
(* ... and a re-prepared id starts with nothing pending *)
Theorem C17_reprepare : forall h id n,
  abs_stmt (h ++ [HPrepare id n]) id = Some {| v_params := n; v_types := []; v_long := [] |}.
Proof. exact hist_reprepare. Qed.

(* at the execution, the addressed parameter is the pending data (no inline bytes consumed) and every
   other parameter is what the client encoded inline; the registry follows the history *)
Theorem C17_delivery : forall fpext fptrunc errtab id ps b st sc h v inners x sc' msgs,
  reg_matches st h -> abs_stmt h id = Some v ->
  v_params v = Nlen ps -> Nlen ps < 65536 ->
  (b = true -> types_ok ps) ->
  (b = false -> length (v_types v) = length ps) ->
  delivered_all fpext (v_long v) (if b then types_of ps else v_types v) 0 ps = Some inners ->
  pop_x sc = (x, sc') -> x_pull x = None -> x_convs x = [] -> x_ret x = None ->
  pm_q errtab true None (x_prog x) = Some msgs ->
  exists st',
    abs_handle fpext fptrunc errtab (CmdExecute id (exec_block ps b)) (st, sc) =
      Some ({| a_calls := CExecute id :: param_calls (if b then types_of ps else v_types v) inners;
               a_msgs := msgs |}, (st', sc')) /\
    reg_matches st' (h ++ [HExec id ps b]).
Proof. exact exec_delivers. Qed.
(* the registry follows SEND_LONG_DATA too *)
Theorem C17_registry_step : forall fpext fptrunc errtab cmd st sc h rep st' sc',
  (forall id b, cmd <> CmdExecute id b) ->
  reg_matches st h ->
  abs_handle fpext fptrunc errtab cmd (st, sc) = Some (rep, (st', sc')) ->
  reg_matches st' (h ++ [hev_of cmd sc]).
Proof. exact step_matches. Qed.

(* non-vacuity: the long-data parameter is delivered as the pending bytes *)
Example C17_example :
  delivered (fun x => x) [(1, [x61; x62; x63])] [(3, false); (252, false)] 1
            {| cp_type := 252; cp_unsigned := false; cp_value := Some [] |} = Some (PIBytes [x61; x62; x63]) /\
  pending [HPrepare 7 2; HLong 7 1 [x61]; HLong 7 1 [x62; x63]] 7 1 = Some [x61; x62; x63] /\
  pending [HPrepare 7 2; HLong 7 1 [x61]; HExec 7 [] false; HLong 7 1 [x62]] 7 1 = Some [x62].
Proof. vm_compute. repeat split; reflexivity. Qed.
