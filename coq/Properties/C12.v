(* C12  The server never waits for input while it owes a flushed reply.  Property theorems only.
   What the model cannot exhibit (and this file does not claim): a real socket blocking, kernel or
   TLS-engine buffering below the transport's flush(). *)
From MsqlVerif Require Import Model.Server Spec.Frame Spec.AbsServer Proofs.PacketRead
  Proofs.RunRender Proofs.ServerRun Proofs.Extras.
Open Scope N_scope.

(* every served conversation, under ANY arrival schedule (lock-step, any pipelining depth, any
   chunking), leaves a trace of the shape  [reads] [callbacks, reply packets] [flush]  per command *)
Theorem C12_trace_shape : forall fpext fptrunc errtab cmds ss0 reps ss1 fuel s,
  wf_conn s -> Forall (fun c => fst c < 256) cmds ->
  inbound s = frames (s_lim s) cmds ->
  abs_run fpext fptrunc errtab cmds ss0 = Some (reps, ss1) ->
  (length cmds < fuel)%nat ->
  exists s' chron,
    run_f fpext fptrunc errtab fuel ss0 s = (ROk tt, s') /\
    s_trace s' = ERead 0 :: rev chron ++ s_trace s /\
    conv_trace (s_lim s) cmds reps chron /\ clean s'.
Proof. exact run_refines. Qed.

(* ... hence at EVERY read -- every moment the server waits for client bytes -- everything written
   so far has been flushed: no reply is owed *)
Theorem C12_flushed_at_every_read : forall lim cmds reps chron,
  conv_trace lim cmds reps chron -> flushed_at_reads false (chron ++ [ERead 0]).
Proof. exact conv_trace_flushed. Qed.

(* commands that arrived together are served without further input: a completely buffered command
   is returned by next() without touching the transport *)
Theorem C12_buffered_commands_need_no_read : forall s q p rest,
  0 < s_lim s -> s_lim s < 2 ^ 24 -> q < 256 ->
  s_buf s = frame (s_lim s) q p ++ rest ->
  next s = (ROk (Some (last_seq (s_lim s) q p, p)), set_buf rest s).
Proof. exact next_no_read. Qed.

(* the server asks the transport for input ONLY at moments when the bytes received so far do not
   contain a complete command (and stops reading as soon as one is complete): with the two theorems
   above -- every reply is written and flushed before the next read -- a client that sends one command
   at a time and waits for each reply never hangs *)
From MsqlVerif Require Import Proofs.ReadsNeeded.
Theorem C12_reads_only_when_needed : forall fuel s r s',
  all_data (s_reads s) ->
  next_f fuel s = (r, s') ->
  exists chunks,
    s_reads s = map RdData chunks ++ s_reads s' /\
    reads_needed (s_lim s) (s_buf s) chunks /\
    (forall q p, r = ROk (Some (q, p)) ->
       packet (s_lim s) (s_buf s ++ concat chunks) = PDone q p (s_buf s')) /\
    (r = ROk None \/ r = RErr EUnexpectedEof -> needs_input (s_lim s) (s_buf s ++ concat chunks) = true).
Proof. exact next_reads_only_when_needed. Qed.

(* ... and the same threaded through the whole run loop: while serving ANY conversation under ANY
   chunking the server reads only while the received-and-unconsumed bytes hold no complete command;
   each command is taken up as soon as the chunk completing it has arrived *)
From MsqlVerif Require Import Proofs.ServerReads.
Theorem C12_conversation_reads_only_when_needed : forall fpext fptrunc errtab cmds ss0 reps ss1 fuel s,
  wf_conn s -> Forall (fun c => fst c < 256) cmds ->
  inbound s = frames (s_lim s) cmds ->
  abs_run fpext fptrunc errtab cmds ss0 = Some (reps, ss1) ->
  (length cmds < fuel)%nat ->
  exists s' cks,
    run_f fpext fptrunc errtab fuel ss0 s = (ROk tt, s') /\
    s_reads s = map RdData (concat cks) /\
    conv_reads (s_lim s) (s_buf s) cmds cks.
Proof. exact run_reads_needed. Qed.
