(* C06  Text-protocol result values arrive unchanged.  Property theorems only. *)
From MsqlVerif Require Import Model.Value Spec.Client Spec.ClientValues Spec.Render
  Proofs.ValueClient Proofs.ClientRender.
Open Scope N_scope.

(* a whole text row: n accepted cells are decoded, cell by cell, to the written contents *)
Theorem C06_rows : forall cols vs r,
  cols <> [] -> length vs = length cols -> Forall text_ok vs ->
  p_write_cols false cols prow0 vs = Some r ->
  exists cs, tcells vs = Some cs /\ c_text_row (length cols) (pr_cur r) = Some cs.
Proof. exact text_row_decode. Qed.

(* one cell, whatever follows it *)
Theorem C06_cell : forall v bs n rest,
  text_ok v -> to_text v = ROk bs ->
  exists c, tcell v = Some c /\
    c_text_cells (S n) (bs ++ rest) =
      match c_text_cells n rest with Some (cs, r) => Some (c :: cs, r) | None => None end.
Proof. exact to_text_decode. Qed.

(* NULL stays distinguishable from every string, in particular "" and "NULL" *)
Theorem C06_null_distinct : forall s, enc_cell None <> enc_cell (Some s).
Proof. exact null_distinct. Qed.

(* integers of EVERY width: the decimal text reads back as the same number (all of Z) *)
Theorem C06_integers : forall z, c_dec (dec_Z z) = Some z.
Proof. exact dec_roundtrip. Qed.

(* DATE for all years 0..9999; DATETIME and TIME with and without microseconds *)
Theorem C06_date : forall y m d,
  (0 <= y <= 9999)%Z -> c_text_date (text_date y m d) = Some (Z.to_N y, m, d).
Proof. exact text_date_roundtrip. Qed.
Theorem C06_datetime : forall y m d h mi s ns,
  (0 <= y <= 9999)%Z -> ns / 1000 < 1000000 ->
  c_text_datetime (text_datetime y m d h mi s ns) = Some (Z.to_N y, m, d, (h, mi, s, ns / 1000)).
Proof. exact text_datetime_roundtrip. Qed.
Theorem C06_duration : forall secs ns,
  ns < 10 ^ 9 ->
  c_text_time (text_duration secs ns) = Some (secs / 3600, (secs mod 3600) / 60, secs mod 60, ns / 1000).
Proof. exact text_duration_roundtrip. Qed.

(* floats: the cell is the length-encoded Display text (the std round-trip parse (fmt x) = x is
   an oracle hypothesis, not proved here) *)
Theorem C06_float_cell_partial : forall bits shown b64,
  to_text (VF32 bits shown b64) = ROk (lenenc_str shown) /\ forall bits', to_text (VF64 bits' shown) = ROk (lenenc_str shown).
Proof. intros; split; reflexivity. Qed.

Example C06_example :
  c_text_row 4 (match to_text (VInt I64 (-9223372036854775808)%Z), to_text VNone, to_text (VBytes []),
                       to_text (VMyc (MBytes [x4e; x55; x4c; x4c])) with
                | ROk a, ROk b, ROk c, ROk d => a ++ b ++ c ++ d | _, _, _, _ => [] end)
  = Some [CText (dec_Z (-9223372036854775808)%Z); CNull; CText []; CText [x4e; x55; x4c; x4c]].
Proof. vm_compute. reflexivity. Qed.
