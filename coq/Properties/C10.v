(* C10  Statement ids are executable exactly between PREPARE reply and CLOSE.  Property theorems only. *)
From MsqlVerif Require Import Model.Server Spec.AbsServer Spec.History Proofs.ServerRun Proofs.History.
Open Scope N_scope.

(* the server's registry IS the history's: after every command (any history, any length) *)
Theorem C10_registry_start : reg_matches [] [].
Proof. exact reg_matches_nil. Qed.
Theorem C10_registry_step : forall fpext fptrunc errtab cmd st sc h rep st' sc',
  (forall id b, cmd <> CmdExecute id b) ->
  reg_matches st h ->
  abs_handle fpext fptrunc errtab cmd (st, sc) = Some (rep, (st', sc')) ->
  reg_matches st' (h ++ [hev_of cmd sc]).
Proof. exact step_matches. Qed.

(* ids never prepared, rejected at prepare time or already closed are not live ... *)
Theorem C10_never_prepared : forall h id,
  Forall (fun e => match e with HPrepare i _ => i <> id | _ => True end) h -> live h id = false.
Proof. exact hist_never_prepared. Qed.
Theorem C10_closed : forall h id, live (h ++ [HClose id]) id = false.
Proof. exact hist_close. Qed.
(* ... and executions / long data for them never reach the shim and end the connection with an error *)
Theorem C10_gate_execute : forall fpext fptrunc errtab id block st sc h,
  reg_matches st h -> live h id = false ->
  abs_handle fpext fptrunc errtab (CmdExecute id block) (st, sc) = None /\ lookup id st = None.
Proof. exact gate_execute. Qed.
Theorem C10_gate_execute_error : forall fpext fptrunc errtab id params st sc s,
  lookup id st = None ->
  handle fpext fptrunc errtab (CmdExecute id params) (st, sc) s = (RErr EInvalidData, s).
Proof. exact handle_unknown_execute. Qed.
Theorem C10_gate_long_data : forall fpext fptrunc errtab id param data st sc h,
  reg_matches st h -> live h id = false ->
  abs_handle fpext fptrunc errtab (CmdLongData id param data) (st, sc) = None /\ lookup id st = None.
Proof. exact gate_long_data. Qed.
Theorem C10_gate_long_data_error : forall fpext fptrunc errtab id param data st sc s,
  lookup id st = None ->
  handle fpext fptrunc errtab (CmdLongData id param data) (st, sc) s = (RErr EInvalidData, s).
Proof. exact handle_unknown_long_data. Qed.

(* every COM_STMT_CLOSE reaches on_close exactly once and produces no reply, live or not *)
Theorem C10_close : forall fpext fptrunc errtab id st sc,
  abs_handle fpext fptrunc errtab (CmdClose id) (st, sc)
    = Some ({| a_calls := [CClose id]; a_msgs := [] |}, (remove_key id st, sc)).
Proof. exact close_always. Qed.

(* re-preparing an id starts it afresh: new parameter count, no stale bound types or long data *)
Theorem C10_reprepare : forall h id n,
  abs_stmt (h ++ [HPrepare id n]) id = Some {| v_params := n; v_types := []; v_long := [] |}.
Proof. exact hist_reprepare. Qed.

Example C10_example :
  live [HPrepare 1 2; HPrepare 2 0; HClose 1; HOther; HPrepare 1 3] 1 = true /\
  live [HPrepare 1 2; HPrepare 2 0; HClose 1] 1 = false /\ live [HPrepare 1 2; HClose 1] 2 = false.
Proof. vm_compute. repeat split; reflexivity. Qed.
