(* C19  Connection end and transport faults are reported, never masked.  Property theorems only.
   Faults: read errors at any read, write/flush errors at any transport call index (one-off or
   persistent), end of stream after any byte count -- all expressed by the world of the model. *)
From MsqlVerif Require Import Model.Server Spec.Frame Spec.Render Spec.AbsServer
  Proofs.PacketRead Proofs.RunRender Proofs.ServerRun Proofs.ServerInit Proofs.Faults.
Open Scope N_scope.

(* ANY transport fault makes run_on return an error (never Ok), for every conversation, every
   configuration and every shim that propagates the errors it is given *)
Theorem C19_fault_is_error : forall fpext fptrunc errtab cfg sc s r s',
  s_trace s = [] -> s_park s = None -> scripts_noignore sc ->
  run_on fpext fptrunc errtab cfg sc s = (r, s') ->
  faulted s' -> r <> ROk tt.
Proof. exact fault_is_error. Qed.

(* no shim callback is started after the failure *)
Theorem C19_no_call_after_fault : forall fpext fptrunc errtab cfg sc s r s' pre f post,
  s_trace s = [] -> s_park s = None -> scripts_noignore sc ->
  run_on fpext fptrunc errtab cfg sc s = (r, s') ->
  rev (s_trace s') = pre ++ f :: post -> is_fault f = true ->
  existsb is_call post = false.
Proof. exact no_call_after_fault. Qed.

(* the connection ends at a command boundary (or by QUIT): run returns Ok ... *)
Theorem C19_ok_at_boundary : forall fpext fptrunc errtab cmds ss0 reps ss1 fuel s,
  wf_conn s -> Forall (fun c => fst c < 256) cmds ->
  inbound s = frames (s_lim s) cmds ->
  abs_run fpext fptrunc errtab cmds ss0 = Some (reps, ss1) ->
  (length cmds < fuel)%nat ->
  exists s' chron,
    run_f fpext fptrunc errtab fuel ss0 s = (ROk tt, s') /\
    s_trace s' = ERead 0 :: rev chron ++ s_trace s /\
    conv_trace (s_lim s) cmds reps chron /\ clean s'.
Proof. exact run_refines. Qed.
Theorem C19_ok_after_quit : forall fpext fptrunc errtab cmds ss0 reps ss1 fuel s q junk rest,
  wf_conn s -> Forall (fun c => fst c < 256) cmds -> q < 256 ->
  inbound s = frames (s_lim s) cmds ++ frame (s_lim s) q (x01 :: junk) ++ rest ->
  abs_run fpext fptrunc errtab cmds ss0 = Some (reps, ss1) ->
  (length cmds < fuel)%nat ->
  exists s' chron rd,
    run_f fpext fptrunc errtab fuel ss0 s = (ROk tt, s') /\
    s_trace s' = rev (chron ++ rd) ++ s_trace s /\ only_reads rd /\
    conv_trace (s_lim s) cmds reps chron.
Proof. exact run_refines_quit. Qed.
(* ... inside a packet: an error ... *)
Theorem C19_end_inside_packet : forall fpext fptrunc errtab cmds ss0 reps ss1 fuel s q p x y,
  wf_conn s -> Forall (fun c => fst c < 256) cmds -> q < 256 ->
  inbound s = frames (s_lim s) cmds ++ x -> x <> [] -> y <> [] -> x ++ y = frame (s_lim s) q p ->
  abs_run fpext fptrunc errtab cmds ss0 = Some (reps, ss1) ->
  (length cmds < fuel)%nat ->
  exists s', run_f fpext fptrunc errtab fuel ss0 s = (RErr EUnexpectedEof, s').
Proof. exact run_truncated. Qed.
(* ... before the handshake response: an error, no callback *)
Theorem C19_end_before_handshake : forall errtab cfg s,
  fresh s -> inbound s = [] ->
  exists s', init errtab cfg s = (RErr EConnAborted, s') /\
             Forall (fun ev => match ev with ECall _ => False | _ => True end) (s_trace s').
Proof. exact init_no_handshake. Qed.

(* a shim error ends the connection and is returned unchanged *)
Theorem C19_shim_error_returned : forall fpext fptrunc errtab q st sc prog tag sc' msgs s,
  clean s ->
  is_prefix sel_upper q || is_prefix sel_lower q = false ->
  is_prefix use_upper q || is_prefix use_lower q = false ->
  utf8_valid q = true ->
  pop_q sc = ((prog, Some tag), sc') ->
  pm_q errtab false None prog = Some msgs ->
  exists s', handle fpext fptrunc errtab (CmdQuery q) (st, sc) s = (RErr (EShim tag), s').
Proof. exact shim_error_returned. Qed.
Theorem C19_handler_error_ends_run : forall fpext fptrunc errtab fuel ss s q pkt s1 cmd e s2,
  next s = (ROk (Some (q, pkt)), s1) -> parse pkt = Some cmd -> cmd <> CmdQuit ->
  handle fpext fptrunc errtab cmd ss (snd (set_seq ((q + 1) mod 256) s1)) = (RErr e, s2) ->
  run_f fpext fptrunc errtab (S fuel) ss s = (RErr e, s2).
Proof. exact run_f_handle_error. Qed.
