(* C09  Column metadata reaches the client exactly as the shim declared it.  Property theorems only. *)
From MsqlVerif Require Import Model.Codec Spec.Client Proofs.CodecClient.
Open Scope N_scope.

(* one definition: table, name, type, flags -- names of any content and any length *)
Theorem C09_coldef : forall c fl,
  Nlen (c_table c) < 2 ^ 64 -> Nlen (c_name c) < 2 ^ 64 -> c_type c < 256 -> c_flags c < 65536 ->
  c_coldef (coldef_body c fl) = Some c.
Proof. exact coldef_roundtrip. Qed.

(* resultset header: count packet (any count >= 0, incl. > 250), the definitions in order, EOF *)
Theorem C09_resultset_header_shape : forall cs,
  column_definitions_msgs cs = lenenc (Nlen cs) :: map (fun c => coldef_body c false) cs ++ [eof_body 0].
Proof. exact column_definitions_shape. Qed.
Theorem C09_count : forall x rest, x < 2 ^ 64 -> c_lenenc (lenenc x ++ rest) = Some (x, rest).
Proof. exact lenenc_roundtrip. Qed.
Theorem C09_definitions_in_order : forall cs fl rest,
  Forall col_ok cs ->
  c_coldefs (length cs) (map (fun c => coldef_body c fl) cs ++ rest) = Some (cs, rest).
Proof. exact coldefs_roundtrip. Qed.

(* reply to PREPARE: statement id, parameter count and definitions, column count and definitions
   (the counts are 16-bit fields of the wire format) *)
Theorem C09_prepare_ok : forall id params cols rest,
  id < 2 ^ 32 -> Nlen params < 65536 -> Nlen cols < 65536 ->
  Forall col_ok params -> Forall col_ok cols ->
  c_prepare_ok (prepare_ok_msgs id params cols ++ rest) =
    Some ({| pk_id := id; pk_params := params; pk_cols := cols |}, rest).
Proof. exact prepare_ok_roundtrip. Qed.

Example C09_example :
  let c := {| c_table := repeat x74 300; c_name := [xe6; x97; xa5; x00; xff]; c_type := 246; c_flags := 65535 |} in
  c_coldef (coldef_body c false) = Some c.
Proof. vm_compute. reflexivity. Qed.
