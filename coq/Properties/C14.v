(* C14  Completion counts arrive exactly, including for zero-column resultsets.
   Property theorems only (closed by `exact`), plus non-vacuity examples. *)
From MsqlVerif Require Import Model.Codec Model.Resultset Spec.Client Spec.Render Proofs.CodecClient Proofs.Extras.
Open Scope N_scope.

(* every u64 survives the length-encoded-integer encoding, in all four size classes, whatever follows *)
Theorem C14_lenenc_roundtrip : forall x rest,
  x < 2 ^ 64 -> c_lenenc (lenenc x ++ rest) = Some (x, rest).
Proof. exact lenenc_roundtrip. Qed.

(* the OK packet built for (rows, last_insert_id, status) is decoded to exactly these values *)
Theorem C14_ok_roundtrip : forall rows id status,
  rows < 2 ^ 64 -> id < 2 ^ 64 -> status < 65536 ->
  c_ok (ok_body rows id status) =
    Some {| ok_rows := rows; ok_id := id; ok_status := status; ok_warnings := 0 |}.
Proof. exact ok_roundtrip. Qed.

(* a completion reported by the shim denotes exactly one OK unit with the given counts -- single and
   chained; with C03_client_decodes this is what the client decodes, in text and binary mode *)
Theorem C14_completed : forall errtab bin r i, un_q errtab bin (QCompleted r i) = Some [UOk r i].
Proof. exact un_completed. Qed.
Theorem C14_complete_one : forall errtab bin r i k,
  un_q errtab bin (QCompleteOne r i k) = ocons (UOk r i) (un_q errtab bin k).
Proof. exact un_complete_one. Qed.

(* a resultset declared with zero columns is reported as an OK whose affected-row count equals the
   number of rows the shim ENDED (end_row / write_row; write_col does not count), for every number
   of rows and every interleaving of the three calls; last-insert-id 0 *)
Theorem C14_zero_columns : forall errtab bin steps,
  un_q errtab bin (QStart [] (zprog steps RFinish)) = Some [UOk (N.of_nat (zcount steps)) 0].
Proof. exact un_zero_cols. Qed.

(* non-vacuity / boundary examples: 250|251, 2^16, 2^24, 2^64-1 *)
Example C14_examples :
  map (fun x => c_lenenc (lenenc x ++ [x07])) [250; 251; 65535; 65536; 16777215; 16777216; 18446744073709551615]
  = map (fun x => Some (x, [x07])) [250; 251; 65535; 65536; 16777215; 16777216; 18446744073709551615].
Proof. vm_compute. reflexivity. Qed.
