(* C14  Completion counts arrive exactly, including for zero-column resultsets.
   Property theorems only (closed by `exact`), plus non-vacuity examples. *)
From MsqlVerif Require Import Model.Codec Spec.Client Proofs.CodecClient.
Open Scope N_scope.

(* every u64 survives the length-encoded-integer encoding, in all four size classes, whatever follows *)
Theorem C14_lenenc_roundtrip : forall x rest,
  x < 2 ^ 64 -> c_lenenc (lenenc x ++ rest) = Some (x, rest).
Proof. exact lenenc_roundtrip. Qed.

(* the OK packet built for (rows, last_insert_id, status) is decoded to exactly these values *)
Theorem C14_ok_roundtrip : forall rows id status,
  rows < 2 ^ 64 -> id < 2 ^ 64 -> status < 65536 ->
  c_ok (ok_body rows id status) =
    Some {| ok_rows := rows; ok_id := id; ok_status := status; ok_warnings := 0 |}.
Proof. exact ok_roundtrip. Qed.

(* non-vacuity / boundary examples: 250|251, 2^16, 2^24, 2^64-1 *)
Example C14_examples :
  map (fun x => c_lenenc (lenenc x ++ [x07])) [250; 251; 65535; 65536; 16777215; 16777216; 18446744073709551615]
  = map (fun x => Some (x, [x07])) [250; 251; 65535; 65536; 16777215; 16777216; 18446744073709551615].
Proof. vm_compute. reflexivity. Qed.
