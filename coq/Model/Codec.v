(* Model of src/writers.rs (packet encoders) and src/commands.rs (command and
   handshake parsers).  Pure functions over bytes; definitions only. *)
From MsqlVerif Require Export Model.Base.

Record column := { c_table : bytes; c_name : bytes; c_type : N; c_flags : N }.

Definition NOT_NULL_FLAG : N := 1.
Definition UNSIGNED_FLAG : N := 32.
Definition MORE_RESULTS : N := 8.     (* StatusFlags::SERVER_MORE_RESULTS_EXISTS *)
Definition has_flag (flags bit : N) : bool := negb (N.land flags bit =? 0).

(* ---- writers.rs : message bodies ---- *)

Definition ok_body (rows id status : N) : bytes :=
  x00 :: lenenc rows ++ lenenc id ++ le_bytes 2 status ++ [x00; x00].
Definition eof_body (status : N) : bytes := [xfe; x00; x00] ++ le_bytes 2 status.
Definition err_body (code : N) (state msg : bytes) : bytes :=
  xff :: le_bytes 2 code ++ x23 :: state ++ msg.
Definition def_str : bytes := [x64; x65; x66].   (* "def" *)
Definition coldef_body (c : column) (field_list : bool) : bytes :=
  lenenc_str def_str ++ lenenc_str [] ++ lenenc_str (c_table c) ++ lenenc_str [] ++
  lenenc_str (c_name c) ++ lenenc_str [] ++ lenenc 12 ++ le_bytes 2 33 ++ le_bytes 4 1024 ++
  b_of_N (c_type c) :: le_bytes 2 (c_flags c) ++ [x00] ++ [x00; x00] ++
  (if field_list then [xfb] else []).
Definition prepare_ok_body (id ncols nparams : N) : bytes :=
  x00 :: le_bytes 4 id ++ le_bytes 2 ncols ++ le_bytes 2 nparams ++ [x00] ++ le_bytes 2 0.

(* write_column_definitions(i, w, is_comm_field_list_response, only_eof_on_nonempty) *)
Definition coldefs_msgs (cs : list column) (field_list only_eof_on_nonempty : bool) : list bytes :=
  map (fun c => coldef_body c field_list) cs ++
  (match cs with
   | [] => if only_eof_on_nonempty then [] else [eof_body 0]
   | _ => [eof_body 0]
   end).
(* column_definitions *)
Definition column_definitions_msgs (cs : list column) : list bytes :=
  lenenc (Nlen cs) :: coldefs_msgs cs false false.
(* write_prepare_ok: `len() as u16` truncates *)
Definition prepare_ok_msgs (id : N) (params cols : list column) : list bytes :=
  prepare_ok_body id (Nlen cols mod 65536) (Nlen params mod 65536)
  :: coldefs_msgs params false true ++ coldefs_msgs cols false true.

(* ---- commands.rs ---- *)

Inductive command :=
  | CmdQuery (q : bytes) | CmdListFields (a : bytes) | CmdInit (schema : bytes)
  | CmdPrepare (q : bytes)
  | CmdExecute (stmt : N) (params : bytes)
  | CmdLongData (stmt : N) (param : N) (data : bytes)
  | CmdClose (stmt : N) | CmdQuit | CmdPing.

(* commands::parse; None = nom::Err::Error *)
Definition parse (i : bytes) : option command :=
  match i with
  | [] => None
  | c :: r =>
    match N_of_b c with
    | 3 => Some (CmdQuery r)
    | 4 => Some (CmdListFields r)
    | 2 => Some (CmdInit r)
    | 22 => Some (CmdPrepare r)
    | 23 => match take_n 4 r with
            | Some (id, r1) => match take_n 5 r1 with
                               | Some (_, r2) => Some (CmdExecute (le_val id) r2)
                               | None => None end
            | None => None end
    | 24 => match take_n 4 r with
            | Some (id, r1) => match take_n 2 r1 with
                               | Some (p, r2) => Some (CmdLongData (le_val id) (le_val p) r2)
                               | None => None end
            | None => None end
    | 25 => match take_n 4 r with
            | Some (id, _) => Some (CmdClose (le_val id))
            | None => None end
    | 1 => Some CmdQuit
    | 14 => Some CmdPing
    | _ => None
    end
  end.

(* take_until(b"\0"): None when there is no NUL *)
Fixpoint take_until_nul (i : bytes) : option (bytes * bytes) :=
  match i with
  | [] => None
  | b :: r => if byte_eqb b x00 then Some ([], i)
              else match take_until_nul r with
                   | Some (u, rest) => Some (b :: u, rest)
                   | None => None end
  end.

Inductive hres :=
  | HOk (ssl : bool) (user : option bytes)
  | HErr (e : ioerr).     (* after lib.rs's map_err: Eof -> UnexpectedEof, otherwise InvalidData *)

Definition CLIENT_PROTOCOL_41 : N := 512.
Definition CLIENT_SSL : N := 2048.

Definition client_handshake (i : bytes) (after_tls : bool) : hres :=
  match take_n 2 i with
  | None => HErr EUnexpectedEof
  | Some (cap, i1) =>
    let cap := le_val cap in
    if has_flag cap CLIENT_PROTOCOL_41 then
      match take_n 2 i1 with
      | None => HErr EUnexpectedEof
      | Some (_, i2) =>
        match take_n 4 i2 with
        | None => HErr EUnexpectedEof
        | Some (_, i3) =>
          match take_n 1 i3 with
          | None => HErr EUnexpectedEof
          | Some (_, i4) =>
            match take_n 23 i4 with
            | None => HErr EUnexpectedEof
            | Some (_, i5) =>
              let ssl := has_flag cap CLIENT_SSL in
              if after_tls || negb ssl then
                match take_until_nul i5 with
                | Some (u, _) => HOk ssl (Some u)
                | None => HErr EInvalidData
                end
              else HOk ssl None
            end
          end
        end
      end
    else
      match take_n 2 i1 with
      | None => HErr EUnexpectedEof
      | Some (_, i2) =>
        match take_n 1 i2 with
        | None => HErr EUnexpectedEof
        | Some (_, i3) =>
          match take_until_nul i3 with
          | Some (u, _) => HOk (has_flag cap CLIENT_SSL) (Some u)
          | None => HErr EInvalidData
          end
        end
      end
  end.

(* ---- the greeting written by init() ---- *)
Definition greeting_body (tls : bool) : bytes :=
  [x0a] ++
  [x35; x2e; x31; x2e; x31; x30; x2d; x61; x6c; x70; x68; x61; x2d; x6d; x73; x71; x6c; x2d;
   x70; x72; x6f; x78; x79; x00] ++                       (* "5.1.10-alpha-msql-proxy\0" *)
  [x08; x00; x00; x00] ++
  [x3b; x58; x2c; x70; x6f; x5f; x6b; x7d; x00] ++       (* ";X,po_k}\0" *)
  [x00; if tls then x4a else x42] ++
  [x21] ++ [x00; x00] ++ [x00; x00] ++ [x00] ++ repeat x00 6 ++ repeat x00 4 ++
  [x3e; x6f; x36; x5e; x57; x7a; x21; x2f; x6b; x4d; x7d; x4e; x00].  (* ">o6^Wz!/kM}N\0" *)
