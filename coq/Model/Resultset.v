(* Model of src/resultset.rs: InitWriter, StatementMetaWriter, QueryResultWriter,
   RowWriter (with their Drop impls) and an interpreter for scripted shim programs
   over that API.  Definitions only. *)
From MsqlVerif Require Export Model.Params.
Open Scope N_scope.

(* how a scripted shim reacts to an Err from a non-consuming writer call *)
Inductive onerr := Propagate | Ignore.

Inductive qprog :=
  | QStart (cols : list column) (k : rprog)
  | QCompleteOne (rows id : N) (k : qprog)
  | QCompleted (rows id : N)
  | QError (code : N) (msg : bytes)
  | QNoMore
  | QDrop
with rprog :=
  | RWriteCol (v : value) (e : onerr) (k : rprog)
  | REndRow (e : onerr) (k : rprog)
  | RWriteRow (vs : list value) (e : onerr) (k : rprog)
  | RFinish
  | RFinishOne (k : qprog)
  | RFinishError (code : N) (msg : bytes)
  | RDrop.

Inductive iprog := IOk | IError (code : N) (msg : bytes) | INoReply | IDefault.
Inductive pprog := PReply (id : N) (params cols : list column) | PError (code : N) (msg : bytes) | PNoReply.

Inductive finalizer := FOk (rows id : N) | FEof.
Record qrw := { q_bin : bool; q_last : option finalizer }.
Record rw := {
  r_q : qrw;                 (* `result` (always Some while the RowWriter is usable) *)
  r_cols : list column;
  r_data : bytes;
  r_col : nat;
  r_finished : bool;
}.
Definition set_last (q : qrw) (l : option finalizer) : qrw := {| q_bin := q_bin q; q_last := l |}.
Definition rw_upd (w : rw) (q : qrw) (data : bytes) (col : nat) (fin : bool) : rw :=
  {| r_q := q; r_cols := r_cols w; r_data := data; r_col := col; r_finished := fin |}.

Section WithTables.
(* ErrorKind::from(code) as (kind as u16, sqlstate); None = From<u16> panics *)
Variable errtab : N -> option (N * bytes).

(* run m; turn an Err into a value (the caller decides); panics still propagate *)
Definition attempt {A} (m : M A) : M (A + ioerr) := fun s =>
  match m s with
  | (ROk a, s') => (ROk (inl a), s')
  | (RErr e, s') => (ROk (inr e), s')
  | (RPanic p, s') => (RPanic p, s')
  end.


Definition write_err (code : N) (msg : bytes) : M unit :=
  match errtab code with
  | Some (c, state) => send (err_body c state msg)
  | None => panic PFromU16
  end.

(* Drop impls park their error in the connection; the next flush reports it *)
Definition park_on_err (m : M unit) : M unit := fun s =>
  match m s with
  | (RErr e, s') => (ROk tt, match s_park s' with Some _ => s' | None => set_park (Some e) s' end)
  | r => r
  end.

(* QueryResultWriter::finalize: last_end.take() happens before the write *)
Definition finalize (q : qrw) (more : bool) : M unit :=
  let status := if more then MORE_RESULTS else 0 in
  match q_last q with
  | None => ret tt
  | Some (FOk rows id) => send (ok_body rows id status)
  | Some FEof => send (eof_body status)
  end.
Definition drop_q (q : qrw) : M unit := park_on_err (finalize q false).

(* RowWriter *)
Definition bitmap_len (w : rw) : nat := (length (r_cols w) + 7 + 2) / 8.
Fixpoint set_bit (data : bytes) (idx : nat) (bit : N) : bytes :=
  match data, idx with
  | [], _ => []
  | b :: r, O => b_of_N (N.lor (N_of_b b) (N.shiftl 1 bit)) :: r
  | b :: r, S i => b :: set_bit r i bit
  end.
(* Vec::resize(n, 0) *)
Definition resize0 (data : bytes) (n : nat) : bytes :=
  firstn n data ++ repeat x00 (n - length data).

Definition lift {A} (r : res A) : M A := fun s => (r, s).

(* RowWriter methods return the writer state they leave behind together with their
   io::Result, because a shim may keep using (or drop) the writer after an Err *)
Definition wres := (rw * option ioerr)%type.
Definition set_data (w : rw) (d : bytes) : rw := rw_upd w (r_q w) d (r_col w) (r_finished w).
Definition set_col (w : rw) (c : nat) : rw := rw_upd w (r_q w) (r_data w) c (r_finished w).

Definition write_col (w : rw) (v : value) : M wres :=
  match r_cols w with
  | [] => ret (w, None)
  | _ =>
    if q_bin (r_q w) then
      r0 <- (if Nat.eqb (r_col w) 0 then attempt (write_all [x00]) else ret (inl tt)) ;;
      match r0 with
      | inr e => ret (w, Some e)
      | inl _ =>
        let w1 := if Nat.eqb (r_col w) 0 then set_data w (resize0 (r_data w) (bitmap_len w)) else w in
        match nth_error (r_cols w) (r_col w) with
        | None => ret (w1, Some EInvalidData)
        | Some c =>
          if is_null v then
            if has_flag (c_flags c) NOT_NULL_FLAG then ret (w1, Some EInvalidData)
            else ret (set_col (set_data w1 (set_bit (r_data w1) ((r_col w + 2) / 8)
                                                   (N.of_nat ((r_col w + 2) mod 8))))
                              (S (r_col w)), None)
          else match to_bin v c with
               | ROk bs => ret (set_col (set_data w1 (r_data w1 ++ bs)) (S (r_col w)), None)
               | RErr e => ret (w1, Some e)
               | RPanic p => panic p
               end
        end
      end
    else
      match to_text v with
      | RErr e => ret (w, Some e)
      | RPanic p => panic p
      | ROk bs =>
          r <- attempt (write_all bs) ;;
          match r with
          | inr e => ret (w, Some e)
          | inl _ => ret (set_col w (S (r_col w)), None)
          end
      end
  end.

Definition end_row (w : rw) : M wres :=
  match r_cols w with
  | [] => ret (set_col w (S (r_col w)), None)
  | _ =>
    if negb (Nat.eqb (r_col w) (length (r_cols w))) then ret (w, Some EInvalidData)
    else
      r <- (if q_bin (r_q w) then attempt (write_all (r_data w)) else ret (inl tt)) ;;
      match r with
      | inr e => ret (w, Some e)
      | inl _ =>
        let w1 := if q_bin (r_q w) then set_data w [] else w in
        r2 <- attempt end_packet ;;
        match r2 with
        | inr e => ret (w1, Some e)
        | inl _ => ret (set_col w1 0, None)
        end
      end
  end.

Definition finish_inner (w : rw) (complete : bool) : M wres :=
  if r_finished w then ret (w, None)
  else
    let w1 := rw_upd w (r_q w) (r_data w) (r_col w) true in
    x <- (match r_cols w1 with
          | [] => ret (w1, None)
          | _ => if Nat.eqb (r_col w1) 0 then ret (w1, None) else end_row w1
          end) ;;
    match x with
    | (w2, Some e) => ret (w2, Some e)
    | (w2, None) =>
      if complete then
        let fin := match r_cols w2 with
                   | [] => FOk (N.of_nat (r_col w2)) 0
                   | _ => FEof end in
        ret (rw_upd w2 (set_last (r_q w2) (Some fin)) (r_data w2) (r_col w2) true, None)
      else ret (w2, None)
    end.

Definition park (e : ioerr) : M unit := fun s =>
  (ROk tt, match s_park s with Some _ => s | None => set_park (Some e) s end).

(* Drop for RowWriter, then drop of its `result` field *)
Definition drop_rw (w : rw) : M unit :=
  x <- finish_inner w true ;;
  match x with
  | (w', Some e) => park e ;;; drop_q (r_q w')
  | (w', None) => drop_q (r_q w')
  end.

Fixpoint write_cols (w : rw) (vs : list value) : M wres :=
  match vs with
  | [] => ret (w, None)
  | v :: r => x <- write_col w v ;;
              match x with
              | (w', Some e) => ret (w', Some e)
              | (w', None) => write_cols w' r
              end
  end.
Definition write_row (w : rw) (vs : list value) : M wres :=
  match r_cols w with
  | [] => end_row w
  | _ => x <- write_cols w vs ;;
         match x with
         | (w', Some e) => ret (w', Some e)
         | (w', None) => end_row w'
         end
  end.

(* an API call whose Err makes the callback return that Err *)
Definition api_ret (m : M unit) : M unit :=
  r <- attempt m ;;
  match r with
  | inl _ => log_api None
  | inr e => log_api (Some e) ;;; fail e
  end.

Variable quiet : bool.   (* library-internal use of the writers: no api log *)
Definition lapi (r : option ioerr) : M unit := if quiet then ret tt else log_api r.

(* The interpreter.  Result ROk tt: the callback returns Ok(()); RErr e: it returns Err(e). *)
Fixpoint run_q (q : qrw) (p : qprog) {struct p} : M unit :=
  match p with
  | QStart cols k =>
      r <- attempt (finalize q true) ;;
      match r with
      | inr e => lapi (Some e) ;;; fail e         (* self dropped with last_end = None *)
      | inl _ =>
        let w := {| r_q := set_last q None; r_cols := cols; r_data := []; r_col := 0;
                    r_finished := false |} in
        r2 <- attempt (match cols with [] => ret tt | _ => send_all (column_definitions_msgs cols) end) ;;
        match r2 with
        | inr e => drop_rw w ;;; lapi (Some e) ;;; fail e   (* dropped inside RowWriter::new *)
        | inl _ => lapi None ;;; run_r w k
        end
      end
  | QCompleteOne rows id k =>
      r <- attempt (finalize q true) ;;
      match r with
      | inr e => lapi (Some e) ;;; fail e
      | inl _ => lapi None ;;; run_q (set_last q (Some (FOk rows id))) k
      end
  | QCompleted rows id =>
      r <- attempt (finalize q true ;;; finalize (set_last q (Some (FOk rows id))) false) ;;
      match r with
      | inr e => lapi (Some e) ;;; fail e
      | inl _ => lapi None
      end
  | QError code msg =>
      r <- attempt (finalize q true ;;; write_err code msg) ;;
      match r with
      | inr e => lapi (Some e) ;;; fail e
      | inl _ => lapi None
      end
  | QNoMore =>
      r <- attempt (finalize q false) ;;
      match r with
      | inr e => lapi (Some e) ;;; fail e
      | inl _ => lapi None
      end
  | QDrop => drop_q q
  end
with run_r (w : rw) (p : rprog) {struct p} : M unit :=
  let step (x : wres) (e : onerr) (k : rprog) : M unit :=
    match x with
    | (w', None) => lapi None ;;; run_r w' k
    | (w', Some err) => lapi (Some err) ;;;
        match e with
        | Propagate => drop_rw w' ;;; fail err
        | Ignore => run_r w' k
        end
    end in
  match p with
  | RWriteCol v e k => x <- write_col w v ;; step x e k
  | REndRow e k => x <- end_row w ;; step x e k
  | RWriteRow vs e k => x <- write_row w vs ;; step x e k
  | RFinish =>
      x <- finish_inner w true ;;
      match x with
      | (w', Some err) => drop_q (r_q w') ;;; lapi (Some err) ;;; fail err   (* self dropped inside the call *)
      | (w', None) =>
          r2 <- attempt (finalize (r_q w') false) ;;
          match r2 with
          | inr err => lapi (Some err) ;;; fail err
          | inl _ => lapi None
          end
      end
  | RFinishOne k =>
      x <- finish_inner w true ;;
      match x with
      | (w', Some err) => drop_q (r_q w') ;;; lapi (Some err) ;;; fail err   (* self dropped inside the call *)
      | (w', None) => lapi None ;;; run_q (r_q w') k
      end
  | RFinishError code msg =>
      x <- finish_inner w false ;;
      match x with
      | (w', Some err) => drop_q (r_q w') ;;; lapi (Some err) ;;; fail err   (* self dropped inside the call *)
      | (w', None) =>
          r2 <- attempt (finalize (r_q w') true ;;; write_err code msg) ;;
          match r2 with
          | inr err => lapi (Some err) ;;; fail err
          | inl _ => lapi None
          end
      end
  | RDrop => drop_rw w
  end.

End WithTables.
