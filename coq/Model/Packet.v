(* Model of src/packet.rs: the transport world, PacketConn's outbound buffer
   (write / write_all / maybe_end_packet / flush) and inbound reassembly
   (fullpacket / onepacket / packet / next).  Definitions only. *)
From MsqlVerif Require Export Model.Base.

(* ---- transport world ---- *)

(* result of the i-th read() on the transport; an exhausted script means end-of-stream *)
Inductive rd := RdData (bs : bytes) | RdEof | RdErr (k : N).
(* fault plan for write()/flush() calls on the transport, indexed by call number *)
Inductive wfault := WNone | WOnce (op : nat) (k : N) | WFrom (op : nat) (k : N).

(* what a shim callback was given (observations) *)
Inductive pinner :=
  | PINull | PIBytes (bs : bytes) | PIInt (z : Z) | PIUInt (n : N) | PIDouble (bits : N)
  | PIDate (bs : bytes) | PITime (bs : bytes) | PIDatetime (bs : bytes).
(* result of a From<Value> conversion requested by the shim script *)
Inductive convres :=
  | CvInt (z : Z) | CvF32 (bits : N) | CvF64 (bits : N) | CvBytes (bs : bytes)
  | CvDate (y : Z) (m d : N) | CvDateTime (y : Z) (m d h mi s nanos : N) | CvDur (secs nanos : N).
Inductive call :=
  | CAuth (user : option bytes)
  | CQuery (q : bytes) | CPrepare (q : bytes) | CInit (schema : bytes)
  | CExecute (id : N) | CParam (ty : N) (v : pinner) | CConv (r : convres) | CClose (id : N).

Inductive event :=
  | ERead (n : N) | EReadErr (k : N)
  | EWrite (bs : bytes) | EWriteErr (k : N)
  | EFlush | EFlushErr (k : N)
  | ECall (c : call)
  | EApi (r : option ioerr).   (* result of a writer-API call made by a shim program *)

Record st := {
  s_reads : list rd;
  s_fault : wfault;
  s_wops  : nat;            (* number of transport write()/flush() calls so far *)
  s_trace : list event;     (* newest first *)
  s_lim   : N;              (* packet limit M (U24_MAX in the code) *)
  s_buf   : bytes;          (* inbound bytes received and not yet consumed *)
  s_tw    : bytes;          (* payload accumulated in to_write (the 4 header bytes excluded) *)
  s_seq   : N;              (* next outbound sequence id, 0..255 *)
  s_cont  : bool;           (* last packet sent was maximal: one more must follow *)
  s_park  : option ioerr;   (* error parked by a Drop impl, reported by the next flush *)
}.

Definition M (A : Type) := st -> res A * st.
Definition ret {A} (a : A) : M A := fun s => (ROk a, s).
Definition fail {A} (e : ioerr) : M A := fun s => (RErr e, s).
Definition panic {A} (p : site) : M A := fun s => (RPanic p, s).
Definition bind {A B} (m : M A) (f : A -> M B) : M B :=
  fun s => match m s with
           | (ROk a, s') => f a s'
           | (RErr e, s') => (RErr e, s')
           | (RPanic p, s') => (RPanic p, s')
           end.
Notation "x <- m ;; f" := (bind m (fun x => f)) (at level 61, m at next level, right associativity).
Notation "m ;;; f" := (bind m (fun _ => f)) (at level 61, right associativity).

Definition upd_trace (e : event) (s : st) : st :=
  {| s_reads := s_reads s; s_fault := s_fault s; s_wops := s_wops s; s_trace := e :: s_trace s;
     s_lim := s_lim s; s_buf := s_buf s; s_tw := s_tw s; s_seq := s_seq s; s_cont := s_cont s;
     s_park := s_park s |}.
Definition set_reads (r : list rd) (s : st) : st :=
  {| s_reads := r; s_fault := s_fault s; s_wops := s_wops s; s_trace := s_trace s;
     s_lim := s_lim s; s_buf := s_buf s; s_tw := s_tw s; s_seq := s_seq s; s_cont := s_cont s;
     s_park := s_park s |}.
Definition set_wops (n : nat) (s : st) : st :=
  {| s_reads := s_reads s; s_fault := s_fault s; s_wops := n; s_trace := s_trace s;
     s_lim := s_lim s; s_buf := s_buf s; s_tw := s_tw s; s_seq := s_seq s; s_cont := s_cont s;
     s_park := s_park s |}.
Definition set_buf (b : bytes) (s : st) : st :=
  {| s_reads := s_reads s; s_fault := s_fault s; s_wops := s_wops s; s_trace := s_trace s;
     s_lim := s_lim s; s_buf := b; s_tw := s_tw s; s_seq := s_seq s; s_cont := s_cont s;
     s_park := s_park s |}.
Definition set_tw (b : bytes) (s : st) : st :=
  {| s_reads := s_reads s; s_fault := s_fault s; s_wops := s_wops s; s_trace := s_trace s;
     s_lim := s_lim s; s_buf := s_buf s; s_tw := b; s_seq := s_seq s; s_cont := s_cont s;
     s_park := s_park s |}.
Definition set_seq_cont (q : N) (c : bool) (s : st) : st :=
  {| s_reads := s_reads s; s_fault := s_fault s; s_wops := s_wops s; s_trace := s_trace s;
     s_lim := s_lim s; s_buf := s_buf s; s_tw := s_tw s; s_seq := q; s_cont := c;
     s_park := s_park s |}.
Definition set_park (p : option ioerr) (s : st) : st :=
  {| s_reads := s_reads s; s_fault := s_fault s; s_wops := s_wops s; s_trace := s_trace s;
     s_lim := s_lim s; s_buf := s_buf s; s_tw := s_tw s; s_seq := s_seq s; s_cont := s_cont s;
     s_park := p |}.

Definition log_call (c : call) : M unit := fun s => (ROk tt, upd_trace (ECall c) s).
Definition log_api (r : option ioerr) : M unit := fun s => (ROk tt, upd_trace (EApi r) s).

(* does the fault plan hit transport write/flush call number n? *)
Definition fault_at (f : wfault) (n : nat) : option N :=
  match f with
  | WNone => None
  | WOnce op k => if Nat.eqb n op then Some k else None
  | WFrom op k => if Nat.leb op n then Some k else None
  end.

(* transport.write_all(bs): the test transport accepts a whole buffer per write() call *)
Definition t_write (bs : bytes) : M unit := fun s =>
  let n := s_wops s in
  let s1 := set_wops (S n) s in
  match fault_at (s_fault s) n with
  | Some k => (RErr (EInjected k), upd_trace (EWriteErr k) s1)
  | None => (ROk tt, upd_trace (EWrite bs) s1)
  end.
Definition t_flush : M unit := fun s =>
  let n := s_wops s in
  let s1 := set_wops (S n) s in
  match fault_at (s_fault s) n with
  | Some k => (RErr (EInjected k), upd_trace (EFlushErr k) s1)
  | None => (ROk tt, upd_trace EFlush s1)
  end.
(* transport.read(buf): Ok(chunk) | Ok(0) | Err *)
Definition t_read : M bytes := fun s =>
  match s_reads s with
  | [] => (ROk [], upd_trace (ERead 0) s)
  | RdEof :: r => (ROk [], upd_trace (ERead 0) (set_reads r s))
  | RdErr k :: r => (RErr (EInjected k), upd_trace (EReadErr k) (set_reads r s))
  | RdData bs :: r => (ROk bs, upd_trace (ERead (Nlen bs)) (set_reads r s))
  end.

(* ---- outbound ---- *)

(* PacketConn::maybe_end_packet (= end_packet) *)
Definition end_packet : M unit := fun s =>
  let len := Nlen (s_tw s) in
  if (len =? 0) && negb (s_cont s) then (ROk tt, s)
  else
    let pkt := le_bytes 3 len ++ b_of_N (s_seq s) :: s_tw s in
    let s1 := set_seq_cont ((s_seq s + 1) mod 256) (len =? s_lim s) s in
    match t_write pkt s1 with
    | (ROk _, s2) => (ROk tt, set_tw [] s2)
    | r => r
    end.

(* <PacketConn as Write>::write followed by io::Write::write_all's loop *)
Fixpoint write_all_f (fuel : nat) (bs : bytes) : M unit :=
  match bs with
  | [] => ret tt
  | _ :: _ =>
    match fuel with
    | O => panic POutOfFuel
    | S f => fun s =>
      let room := s_lim s - Nlen (s_tw s) in
      let left := N.to_nat (N.min (Nlen bs) room) in
      let s1 := set_tw (s_tw s ++ firstn left bs) s in
      let cont := if Nat.eqb left 0 then fail EWriteZero else write_all_f f (skipn left bs) in
      if Nlen (s_tw s1) =? s_lim s then (end_packet ;;; cont) s1 else cont s1
    end
  end.
Definition write_all (bs : bytes) : M unit := write_all_f (S (length bs)) bs.

(* <PacketConn as Write>::flush *)
Definition flush : M unit := fun s =>
  match s_park s with
  | Some e => (RErr e, set_park None s)
  | None => (end_packet ;;; t_flush) s
  end.

(* one message: its bytes, then end_packet *)
Definition send (msg : bytes) : M unit := write_all msg ;;; end_packet.
Fixpoint send_all (msgs : list bytes) : M unit :=
  match msgs with [] => ret tt | m :: r => send m ;;; send_all r end.

Definition set_seq (q : N) : M unit := fun s => (ROk tt, set_seq_cont q (s_cont s) s).

(* ---- inbound ---- *)

(* nom parsers fullpacket / onepacket: None = nom::Err::Error (treated as "need more") *)
Definition try_full (lim : N) (i : bytes) : option (N * bytes * bytes) :=
  match i with
  | a :: b :: c :: q :: r =>
      if bytes_eqb [a; b; c] (le_bytes 3 lim) then
        match take_cnt r lim with
        | Some (body, rest) => Some (N_of_b q, body, rest)
        | None => None
        end
      else None
  | _ => None
  end.
Definition try_one (i : bytes) : option (N * bytes * bytes) :=
  match i with
  | a :: b :: c :: q :: r =>
      match take_cnt r (le_val [a; b; c]) with
      | Some (body, rest) => Some (N_of_b q, body, rest)
      | None => None
      end
  | _ => None
  end.

Inductive pres := PDone (seq : N) (payload rest : bytes) | PNeed | PBadSeq | PFuel.

(* packet(): fold_many0(fullpacket) then onepacket; the fragments of one message must carry
   consecutive sequence ids (mod 256), otherwise -- once the whole message is buffered -- the parse
   FAILS (nom::Err::Failure), which next() turns into an InvalidData error *)
Fixpoint packet_f (fuel : nat) (lim : N) (acc : option (N * bytes)) (ok : bool) (i : bytes) : pres :=
  match fuel with
  | O => PFuel
  | S f =>
    match try_full lim i with
    | Some (q, body, rest) =>
        match acc with
        | None => packet_f f lim (Some (q, body)) ok rest
        | Some (q0, p0) => packet_f f lim (Some (q, p0 ++ body)) (ok && (q =? (q0 + 1) mod 256)) rest
        end
    | None =>
        match try_one i with
        | Some (q, body, rest) =>
            match acc with
            | None => PDone q body rest
            | Some (q0, p0) =>
                if ok && (q =? (q0 + 1) mod 256) then PDone q (p0 ++ body) rest else PBadSeq
            end
        | None => PNeed
        end
    end
  end.
Definition packet (lim : N) (i : bytes) : pres := packet_f (S (length i)) lim None true i.

(* PacketConn::next: the loop reads until a whole (reassembled) packet is buffered.
   [s_buf] abstracts bytes[len-remaining..]; fuel bounds the number of reads. *)
Fixpoint next_f (fuel : nat) : M (option (N * bytes)) :=
  match fuel with
  | O => panic POutOfFuel
  | S f => fun s =>
    let try :=
      match s_buf s with
      | [] => PNeed
      | _ => packet (s_lim s) (s_buf s)
      end in
    match try with
    | PDone q p rest => (ROk (Some (q, p)), set_buf rest s)
    | PBadSeq => (RErr EInvalidData, s)
    | PFuel => (RPanic POutOfFuel, s)
    | PNeed =>
        match t_read s with
        | (ROk chunk, s1) =>
            let s2 := set_buf (s_buf s1 ++ chunk) s1 in
            match chunk with
            | [] => match s_buf s2 with
                    | [] => (ROk None, s2)
                    | _ => (RErr EUnexpectedEof, s2)
                    end
            | _ => next_f f s2
            end
        | (RErr e, s1) => (RErr e, s1)
        | (RPanic p, s1) => (RPanic p, s1)
        end
    end
  end.
(* every loop iteration consumes one entry of the read script or ends *)
Definition next : M (option (N * bytes)) := fun s => next_f (S (S (length (s_reads s)))) s.

Definition init_st (lim : N) (reads : list rd) (f : wfault) : st :=
  {| s_reads := reads; s_fault := f; s_wops := 0; s_trace := []; s_lim := lim;
     s_buf := []; s_tw := []; s_seq := 0; s_cont := false; s_park := None |}.
