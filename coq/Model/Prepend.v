(* Exact model of the reader the TLS engine is given after the upgrade (src/tls.rs: PrependedReader =
   std::io::Chain<Cursor<Vec<u8>>, T>): the unconsumed tail of the plaintext receive buffer first, then
   the socket.  One read(buf) with |buf| = cap > 0: the cursor copies min(cap, remaining) bytes; when it
   returns 0 the chain marks it done and reads from the socket.  Model/Tls.v abstracts all of this to
   "the engine is offered  tail ++ everything the socket delivers"; Proofs/PrependNoLoss.v proves it of
   this exact version for every sequence of buffer sizes.  Definitions only. *)
From MsqlVerif Require Export Model.Packet Model.PacketBuf.
Open Scope N_scope.

Record prd := { pr_pre : bytes; pr_done : bool }.

Definition prd_read (cap : nat) (p : prd) : st -> res bytes * prd * st := fun s =>
  if pr_done p then let '(r, s') := t_read_cap cap s in (r, p, s')
  else match pr_pre p with
       | [] => let '(r, s') := t_read_cap cap s in (r, {| pr_pre := []; pr_done := true |}, s')
       | _ => (ROk (firstn cap (pr_pre p)), {| pr_pre := skipn cap (pr_pre p); pr_done := false |}, s)
       end.

(* a sequence of reads with the given buffer sizes; stops at the first transport error *)
Fixpoint prd_reads (caps : list nat) (p : prd) (s : st) : res bytes * prd * st :=
  match caps with
  | [] => (ROk [], p, s)
  | c :: r =>
    match prd_read c p s with
    | (ROk chunk, p1, s1) =>
        match prd_reads r p1 s1 with
        | (ROk more, p2, s2) => (ROk (chunk ++ more), p2, s2)
        | other => other
        end
    | other => other
    end
  end.
