(* Exact model of PacketConn::next's inbound bookkeeping (src/packet.rs): the buffer `bytes`, the
   cursor `start`, the count `remaining`, `drain(0..start)`, `resize(max(4096, 2*end), 0)`, a read
   into the spare capacity, `truncate(end + read)`.  Model/Packet.v abstracts all of this to the
   unconsumed tail [s_buf]; Proofs/PacketBufRefine.v shows the reassembly theorem for this exact
   version too.  Definitions only. *)
From MsqlVerif Require Export Model.Packet.
Open Scope N_scope.

Record xbuf := { x_bytes : bytes; x_start : nat; x_rem : nat }.
(* the unconsumed tail: bytes[len - remaining ..] *)
Definition x_tail (x : xbuf) : bytes := skipn (length (x_bytes x) - x_rem x) (x_bytes x).

(* transport.read(buf) with a buffer of [cap] bytes: a scripted chunk larger than the buffer is
   delivered in part, the remainder stays for the next read *)
Definition t_read_cap (cap : nat) : M bytes := fun s =>
  match s_reads s with
  | [] => (ROk [], upd_trace (ERead 0) s)
  | RdEof :: r => (ROk [], upd_trace (ERead 0) (set_reads r s))
  | RdErr k :: r => (RErr (EInjected k), upd_trace (EReadErr k) (set_reads r s))
  | RdData bs :: r =>
      if Nat.leb (length bs) cap
      then (ROk bs, upd_trace (ERead (Nlen bs)) (set_reads r s))
      else (ROk (firstn cap bs),
            upd_trace (ERead (N.of_nat cap)) (set_reads (RdData (skipn cap bs) :: r) s))
  end.

(* the loop of next(); fuel bounds the number of reads *)
Fixpoint next_x_f (fuel : nat) (x : xbuf) : st -> res (option (N * bytes)) * xbuf * st :=
  match fuel with
  | O => fun s => (RPanic POutOfFuel, x, s)
  | S f => fun s =>
    let try :=
      if Nat.eqb (x_rem x) 0 then PNeed
      else packet (s_lim s) (skipn (x_start x) (x_bytes x)) in
    match try with
    | PDone q p rest =>
        (ROk (Some (q, p)), {| x_bytes := x_bytes x; x_start := x_start x; x_rem := length rest |}, s)
    | PBadSeq => (RErr EInvalidData, x, s)
    | PFuel => (RPanic POutOfFuel, x, s)
    | PNeed =>
        (* self.bytes.drain(0..self.start); self.start = 0 *)
        let kept := skipn (x_start x) (x_bytes x) in
        let e := length kept in
        (* resize(max(4096, end * 2), 0): the spare capacity offered to read() *)
        let cap := (Nat.max 4096 (e * 2) - e)%nat in
        match t_read_cap cap s with
        | (ROk chunk, s1) =>
            (* truncate(end + read); remaining = bytes.len() *)
            let b := kept ++ chunk in
            let x1 := {| x_bytes := b; x_start := 0; x_rem := length b |} in
            match chunk with
            | [] => match b with
                    | [] => (ROk None, x1, s1)
                    | _ => (RErr EUnexpectedEof, x1, s1)
                    end
            | _ => next_x_f f x1 s1
            end
        | (RErr err, s1) => (RErr err, {| x_bytes := kept; x_start := 0; x_rem := x_rem x |}, s1)
        | (RPanic p, s1) => (RPanic p, x, s1)
        end
    end
  end.

(* self.start = self.bytes.len() - self.remaining, then the loop *)
Definition next_x (fuel : nat) (x : xbuf) : st -> res (option (N * bytes)) * xbuf * st :=
  next_x_f fuel {| x_bytes := x_bytes x; x_start := (length (x_bytes x) - x_rem x)%nat; x_rem := x_rem x |}.
