(* Model of src/lib.rs: MysqlIntermediary::{run_on, init, run}, the statement
   registry and the scripted shim.  Definitions only. *)
From MsqlVerif Require Export Model.Resultset.
Open Scope N_scope.

Record stmt := { sd_params : N; sd_bound : list (N * bool); sd_long : list (N * bytes) }.
Definition stmts := list (N * stmt).

Fixpoint remove_key {A} (k : N) (l : list (N * A)) : list (N * A) :=
  match l with
  | [] => []
  | (k', v) :: r => if k =? k' then remove_key k r else (k', v) :: remove_key k r
  end.
Definition insert_key {A} (k : N) (v : A) (l : list (N * A)) : list (N * A) :=
  (k, v) :: remove_key k l.

(* scripted shim: one queue of scripts per callback kind *)
Record xscript := { x_pull : option nat; x_convs : list conv; x_prog : qprog; x_ret : option N }.
Record scripts := {
  sc_q : list (qprog * option N);
  sc_p : list (pprog * option N);
  sc_x : list xscript;
  sc_i : list (iprog * option N);
}.
Record config := { cfg_tls : bool; cfg_auth : option N (* Some tag = reject *) }.

Definition ss := (stmts * scripts)%type.

Section WithOracles.
Variable fpext : N -> N.
Variable fptrunc : N -> N.
Variable errtab : N -> option (N * bytes).

Definition ret_tag (t : option N) : M unit :=
  match t with None => ret tt | Some tag => fail (EShim tag) end.

Definition bin_qrw (b : bool) : qrw := {| q_bin := b; q_last := None |}.

Definition pop_q (sc : scripts) : (qprog * option N) * scripts :=
  match sc_q sc with
  | [] => ((QCompleted 0 0, None), sc)
  | x :: r => (x, {| sc_q := r; sc_p := sc_p sc; sc_x := sc_x sc; sc_i := sc_i sc |})
  end.
Definition pop_p (sc : scripts) : (pprog * option N) * scripts :=
  match sc_p sc with
  | [] => ((PReply 1 [] [], None), sc)
  | x :: r => (x, {| sc_q := sc_q sc; sc_p := r; sc_x := sc_x sc; sc_i := sc_i sc |})
  end.
Definition pop_x (sc : scripts) : xscript * scripts :=
  match sc_x sc with
  | [] => ({| x_pull := None; x_convs := []; x_prog := QCompleted 0 0; x_ret := None |}, sc)
  | x :: r => (x, {| sc_q := sc_q sc; sc_p := sc_p sc; sc_x := r; sc_i := sc_i sc |})
  end.
Definition pop_i (sc : scripts) : (iprog * option N) * scripts :=
  match sc_i sc with
  | [] => ((IOk, None), sc)
  | x :: r => (x, {| sc_q := sc_q sc; sc_p := sc_p sc; sc_x := sc_x sc; sc_i := r |})
  end.

(* callbacks *)
Definition on_query (q : bytes) (s : ss) : M ss :=
  let '(st, sc) := s in
  let '((prog, tag), sc') := pop_q sc in
  log_call (CQuery q) ;;; run_q errtab false (bin_qrw false) prog ;;; ret_tag tag ;;; ret (st, sc').

Definition on_init (schema : bytes) (s : ss) : M ss :=
  let '(st, sc) := s in
  let '((prog, tag), sc') := pop_i sc in
  log_call (CInit schema) ;;;
  (match prog with
   | IOk => api_ret (send (ok_body 0 0 0))
   | IError code msg => api_ret (write_err errtab code msg)
   | INoReply => ret tt
   | IDefault => send (ok_body 0 0 0)
   end) ;;; ret_tag tag ;;; ret (st, sc').

Definition on_prepare (q : bytes) (s : ss) : M ss :=
  let '(st, sc) := s in
  let '((prog, tag), sc') := pop_p sc in
  log_call (CPrepare q) ;;;
  match prog with
  | PReply id params cols =>
      let st' := insert_key id {| sd_params := Nlen params mod 65536; sd_bound := []; sd_long := [] |} st in
      (* the registry entry is inserted before the reply is written *)
      api_ret (send_all (prepare_ok_msgs id params cols)) ;;; ret_tag tag ;;; ret (st', sc')
  | PError code msg => api_ret (write_err errtab code msg) ;;; ret_tag tag ;;; ret (st, sc')
  | PNoReply => ret_tag tag ;;; ret (st, sc')
  end.

(* the shim pulls [n] parameters (None = until the iterator ends), converting as scripted *)
Fixpoint pull_params (fuel : nat) (n : option nat) (convs : list conv) (p : pstate) : M pstate :=
  match fuel with
  | O => ret p
  | S f =>
    match n with
    | Some O => ret p
    | _ =>
      match params_next fpext p with
      | RPanic site => panic site
      | RErr e => fail e
      | ROk (None, p') => ret p'
      | ROk (Some (ct, v), p') =>
          log_call (CParam ct v) ;;;
          let k := match convs with [] => KNone | k :: _ => k end in
          (match convert fptrunc k v with
           | RPanic site => panic site
           | RErr e => fail e
           | ROk None => ret tt
           | ROk (Some r) => log_call (CConv r)
           end) ;;;
          pull_params f (match n with Some (S m) => Some m | _ => None end) (tl convs) p'
      end
    end
  end.

(* ParamParser::validate: the whole parameter block must decode (what Params::next would do for
   every parameter, without the shim): otherwise the command is refused before on_execute *)
Fixpoint pull_all_ok (fuel : nat) (p : pstate) : bool :=
  match fuel with
  | O => true
  | S f =>
    match params_next fpext p with
    | ROk (None, _) => true
    | ROk (Some _, p') => pull_all_ok f p'
    | _ => false
    end
  end.
Definition pstate_of (sd : stmt) (params : bytes) : pstate :=
  {| p_params := sd_params sd; p_input := params; p_nullmap := None; p_col := 0;
     p_long := sd_long sd; p_bound := sd_bound sd |}.
Definition params_valid (sd : stmt) (params : bytes) : bool :=
  pull_all_ok (S (N.to_nat (sd_params sd))) (pstate_of sd params).
(* validate() has already read the header: the types sent with this execution are bound to the
   statement whether or not the shim goes on to pull any parameter *)
Definition pstate_hdr (sd : stmt) (params : bytes) : pstate :=
  match params_header (pstate_of sd params) with ROk p => p | _ => pstate_of sd params end.

Definition on_execute (id : N) (sd : stmt) (params : bytes) (sc : scripts) : M (stmt * scripts) :=
  let '(x, sc') := pop_x sc in
  log_call (CExecute id) ;;;
  let p0 := pstate_hdr sd params in
  p <- pull_params (S (N.to_nat (sd_params sd))) (x_pull x) (x_convs x) p0 ;;
  (* bound_types is written through a &mut into the statement *)
  let sd' := {| sd_params := sd_params sd; sd_bound := p_bound p; sd_long := sd_long sd |} in
  run_q errtab false (bin_qrw true) (x_prog x) ;;; ret_tag (x_ret x) ;;; ret (sd', sc').

Definition sel_upper : bytes := [x53; x45; x4c; x45; x43; x54; x20; x40; x40].  (* "SELECT @@" *)
Definition sel_lower : bytes := [x73; x65; x6c; x65; x63; x74; x20; x40; x40].  (* "select @@" *)
Definition use_upper : bytes := [x55; x53; x45; x20].                            (* "USE " *)
Definition use_lower : bytes := [x75; x73; x65; x20].                            (* "use " *)
Definition max_allowed_packet : bytes :=
  [x6d; x61; x78; x5f; x61; x6c; x6c; x6f; x77; x65; x64; x5f; x70; x61; x63; x6b; x65; x74].
Definition at_max_allowed_packet : bytes := x40 :: x40 :: max_allowed_packet.
Definition not_implemented : bytes :=
  [x6e; x6f; x74; x20; x69; x6d; x70; x6c; x65; x6d; x65; x6e; x74; x65; x64].

Definition handle (cmd : command) (s : ss) : M ss :=
  let '(st, sc) := s in
  match cmd with
  | CmdQuery q =>
      if is_prefix sel_upper q || is_prefix sel_lower q then
        (if bytes_eqb (skipn 9 q) max_allowed_packet then
           run_q errtab true (bin_qrw false)
             (QStart [{| c_table := []; c_name := at_max_allowed_packet; c_type := 3; c_flags := 32 |}]
                (RWriteRow [VInt U32 67108864] Propagate RFinish))
         else run_q errtab true (bin_qrw false) (QCompleted 0 0)) ;;; ret s
      else if is_prefix use_upper q || is_prefix use_lower q then
        if utf8_valid (skipn 4 q) then on_init (use_schema (skipn 4 q)) s
        else fail EInvalidData
      else if utf8_valid q then on_query q s else fail EInvalidData
  | CmdPrepare q => if utf8_valid q then on_prepare q s else fail EInvalidData
  | CmdExecute id params =>
      match lookup id st with
      | None => fail EInvalidData
      | Some sd =>
          if negb (params_valid sd params) then fail EInvalidData else
          x <- on_execute id sd params sc ;;
          let '(sd', sc') := x in
          (* state.long_data.clear() *)
          ret (insert_key id {| sd_params := sd_params sd'; sd_bound := sd_bound sd'; sd_long := [] |} st, sc')
      end
  | CmdLongData id param data =>
      match lookup id st with
      | None => fail EInvalidData
      | Some sd =>
          let old := match lookup param (sd_long sd) with Some d => d | None => [] end in
          ret (insert_key id {| sd_params := sd_params sd; sd_bound := sd_bound sd;
                                sd_long := insert_key param (old ++ data) (sd_long sd) |} st, sc)
      end
  | CmdClose id => log_call (CClose id) ;;; ret (remove_key id st, sc)
  | CmdListFields _ =>
      send_all (coldefs_msgs [{| c_table := []; c_name := not_implemented; c_type := 2; c_flags := 32 |}]
                             true true) ;;; ret s
  | CmdInit schema => if utf8_valid schema then on_init schema s else fail EInvalidData
  | CmdPing => send (ok_body 0 0 0) ;;; ret s
  | CmdQuit => ret s
  end.

Fixpoint run_f (fuel : nat) (s : ss) : M unit :=
  match fuel with
  | O => panic POutOfFuel
  | S f =>
    r <- next ;;
    match r with
    | None => ret tt
    | Some (q, pkt) =>
        set_seq ((q + 1) mod 256) ;;;
        match parse pkt with
        | None => fail EInvalidData
        | Some CmdQuit => ret tt
        | Some cmd => s' <- handle cmd s ;; flush ;;; run_f f s'
        end
    end
  end.

Fixpoint reads_len (l : list rd) : nat :=
  match l with
  | [] => O
  | RdData bs :: r => (length bs + reads_len r)%nat
  | _ :: r => reads_len r
  end.

Definition init (cfg : config) : M unit :=
  write_all (greeting_body (cfg_tls cfg)) ;;; flush ;;;
  r <- next ;;
  match r with
  | None => fail EConnAborted
  | Some (q, pkt) =>
    match client_handshake pkt false with
    | HErr e => fail e
    | HOk ssl user =>
        set_seq ((q + 1) mod 256) ;;;
        if ssl then
          (* TLS is outside this model: with no TLS config the request is refused;
             with one, see Model/Tls.v *)
          fail EInvalidData
        else
          log_call (CAuth user) ;;;
          match cfg_auth cfg with
          | Some tag =>
              (match errtab 1045 with
               | Some (c, state) =>
                   send (err_body c state
                     [x63; x6c; x69; x65; x6e; x74; x20; x61; x75; x74; x68; x65; x6e; x74; x69; x63;
                      x61; x74; x69; x6f; x6e; x20; x66; x61; x69; x6c; x65; x64])
               | None => panic PFromU16 end) ;;; flush ;;; fail (EShim tag)
          | None => send (ok_body 0 0 0) ;;; flush
          end
    end
  end.

Definition run_on (cfg : config) (sc : scripts) : M unit := fun w =>
  (init cfg ;;; run_f (S (length (s_buf w) + reads_len (s_reads w))) ([], sc)) w.

End WithOracles.
