(* Base definitions shared by the whole model: bytes, little-endian integers,
   length-encoded integers, decimal printing, outcomes.  Definitions only. *)
From Coq Require Export List NArith ZArith Bool.
From Coq.Strings Require Export Byte.
Export ListNotations.
Open Scope N_scope.

Definition bytes := list byte.

(* u8 <-> N *)
Definition b_of_N (x : N) : byte :=
  match Byte.of_N (x mod 256) with Some b => b | None => x00 end.
Definition N_of_b (b : byte) : N := Byte.to_N b.

(* little-endian, n bytes *)
Fixpoint le_bytes (n : nat) (x : N) : bytes :=
  match n with O => [] | S n' => b_of_N x :: le_bytes n' (x / 256) end.
Fixpoint le_val (bs : bytes) : N :=
  match bs with [] => 0 | b :: r => N_of_b b + 256 * le_val r end.

Definition Nlen {A} (l : list A) : N := N.of_nat (length l).

(* mysql_common::io::WriteMysqlExt::write_lenenc_int (x is a u64) *)
Definition lenenc (x : N) : bytes :=
  if x <? 251 then [b_of_N x]
  else if x <? 65536 then xfc :: le_bytes 2 x
  else if x <? 16777216 then xfd :: le_bytes 3 x
  else xfe :: le_bytes 8 x.
Definition lenenc_str (bs : bytes) : bytes := lenenc (Nlen bs) ++ bs.

(* two's complement views of Rust's fixed-width integers, width in bits *)
Definition wrap_u (w : N) (z : Z) : Z := (z mod (2 ^ Z.of_N w))%Z.
Definition wrap_s (w : N) (z : Z) : Z :=
  let m := (2 ^ Z.of_N w)%Z in
  let r := (z mod m)%Z in
  if (r <? m / 2)%Z then r else (r - m)%Z.
(* n-byte little-endian image of a (possibly negative) integer: `write_iN` / `write_uN` *)
Definition le_bytes_z (n : nat) (z : Z) : bytes :=
  le_bytes n (Z.to_N (wrap_u (8 * N.of_nat n) z)).
Definition le_val_s (bs : bytes) : Z := wrap_s (8 * Nlen bs) (Z.of_N (le_val bs)).

(* decimal printing: Rust's `{}` for integers and the zero-padded `{:0w}` forms *)
Definition digit (d : N) : byte := b_of_N (48 + d).
Fixpoint dec_f (fuel : nat) (x : N) (acc : bytes) : bytes :=
  match fuel with
  | O => acc
  | S f => let acc' := digit (x mod 10) :: acc in
           if x <? 10 then acc' else dec_f f (x / 10) acc'
  end.
Definition dec_N (x : N) : bytes := dec_f (S (N.to_nat (N.log2 x))) x [].
Definition dec_Z (z : Z) : bytes :=
  match z with
  | Zneg p => x2d :: dec_N (Npos p)
  | _ => dec_N (Z.to_N z)
  end.
Definition pad0 (w : nat) (s : bytes) : bytes := repeat x30 (w - length s) ++ s.
(* `{:0w}` on a signed integer: sign first, zeros up to total width w *)
Definition dec_pad_N (w : nat) (x : N) : bytes := pad0 w (dec_N x).
Definition dec_pad_Z (w : nat) (z : Z) : bytes :=
  match z with
  | Zneg p => x2d :: pad0 (w - 1) (dec_N (Npos p))
  | _ => pad0 w (dec_N (Z.to_N z))
  end.

Definition byte_eqb (a b : byte) : bool := Byte.eqb a b.
Fixpoint bytes_eqb (a b : bytes) : bool :=
  match a, b with
  | [], [] => true
  | x :: a', y :: b' => byte_eqb x y && bytes_eqb a' b'
  | _, _ => false
  end.
Fixpoint is_prefix (p s : bytes) : bool :=
  match p, s with
  | [], _ => true
  | x :: p', y :: s' => byte_eqb x y && is_prefix p' s'
  | _ :: _, [] => false
  end.

(* ---- outcomes ---- *)

(* canonical image of io::ErrorKind plus injected transport errors and shim errors *)
Inductive ioerr :=
  | EUnexpectedEof | EConnAborted | EInvalidData | EInvalidInput | EWriteZero | EOther
  | EInjected (k : N)      (* scripted transport error number k *)
  | EShim (tag : N).       (* error value returned by a shim callback *)

(* every data-reachable panic in the modelled code, named *)
Inductive site :=
  | PFragSeq            (* assert_eq! on fragment sequence ids in packet() *)
  | PParamsSplitNull    (* split_at(nullmap_len) in Params::next *)
  | PParamsSplitTypes   (* split_at(2*params) *)
  | PParamsBadType      (* unknown column type in the type table *)
  | PParamsBoundIndex   (* bound_types[col] out of range *)
  | PParamsValue        (* parse_from(..).unwrap() *)
  | PConv               (* a From<Value> conversion the value does not support *)
  | PConvOverflow       (* micros * 1000 overflow in Duration conversion (debug) *)
  | PNullBin            (* unreachable!() in to_mysql_bin of a NULL *)
  | PTimeNeg            (* expect("only positive times") *)
  | PDropUnwrap         (* unwrap() in a Drop impl *)
  | PFromU16            (* ErrorKind::from(unknown code) *)
  | POutOfFuel.         (* model artefact: excluded by the totality theorems *)

Inductive res (A : Type) := ROk (a : A) | RErr (e : ioerr) | RPanic (s : site).
Arguments ROk {A} a. Arguments RErr {A} e. Arguments RPanic {A} s.

Definition rbind {A B} (r : res A) (f : A -> res B) : res B :=
  match r with ROk a => f a | RErr e => RErr e | RPanic s => RPanic s end.

(* option helpers *)
Definition obind {A B} (o : option A) (f : A -> option B) : option B :=
  match o with Some a => f a | None => None end.

Fixpoint take_n (n : nat) (l : bytes) : option (bytes * bytes) :=
  match n with
  | O => Some ([], l)
  | S n' => match l with [] => None | x :: r =>
              match take_n n' r with Some (a, b) => Some (x :: a, b) | None => None end end
  end.

(* split off the first n bytes; structural on the list so that n may be large *)
Fixpoint take_cnt (l : bytes) (n : N) : option (bytes * bytes) :=
  if n =? 0 then Some ([], l)
  else match l with
       | [] => None
       | x :: r => match take_cnt r (N.pred n) with
                   | Some (a, b) => Some (x :: a, b)
                   | None => None end
       end.
