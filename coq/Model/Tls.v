(* Model of the TLS upgrade path of init() (src/lib.rs, src/packet.rs: switch_to_tls,
   src/tls.rs: SwitchableConn / PrependedReader).  The TLS engine (rustls) is opaque: what this
   crate decides is (1) whether to switch, (2) which bytes the engine is offered -- the unconsumed
   tail of the inbound buffer, then everything read from the socket afterwards -- and (3) that after
   the switch the connection (second handshake response, authentication, commands) runs on the
   engine's plaintext exactly as the plaintext code path does.  The engine's plaintext output is a
   second read script [plain].  Definitions only. *)
From MsqlVerif Require Export Model.Server.
Open Scope N_scope.

(* all bytes the socket will still deliver *)
Fixpoint sock_data (l : list rd) : bytes :=
  match l with [] => [] | RdData bs :: r => bs ++ sock_data r | _ :: r => sock_data r end.

Section WithOracles.
Variable fpext : N -> N.
Variable fptrunc : N -> N.
Variable errtab : N -> option (N * bytes).

(* the outcome of the plaintext phase *)
Inductive phase1 :=
  | P1Plain (user : option bytes)        (* no TLS requested: continue as Server.init does *)
  | P1Switch (engine_input : bytes).     (* TLS requested and configured: bytes the engine is offered *)

(* greeting, first handshake response, decision *)
Definition init_phase1 (cfg : config) : M phase1 :=
  write_all (greeting_body (cfg_tls cfg)) ;;; flush ;;;
  r <- next ;;
  match r with
  | None => fail EConnAborted
  | Some (q, pkt) =>
    match client_handshake pkt false with
    | HErr e => fail e
    | HOk ssl user =>
        set_seq ((q + 1) mod 256) ;;;
        if ssl then
          if cfg_tls cfg then
            (* switch_to_tls(config, &bytes[len - remaining..]); remaining = 0 *)
            fun s => (ROk (P1Switch (s_buf s ++ sock_data (s_reads s))), set_buf [] s)
          else fail EInvalidData
        else ret (P1Plain user)
    end
  end.

(* authentication and the reply to it (shared by both paths) *)
Definition auth_phase (cfg : config) (user : option bytes) : M unit :=
  log_call (CAuth user) ;;;
  match cfg_auth cfg with
  | Some tag =>
      (match errtab 1045 with
       | Some (c, state) =>
           send (err_body c state
             [x63; x6c; x69; x65; x6e; x74; x20; x61; x75; x74; x68; x65; x6e; x74; x69; x63;
              x61; x74; x69; x6f; x6e; x20; x66; x61; x69; x6c; x65; x64])
       | None => panic PFromU16 end) ;;; flush ;;; fail (EShim tag)
  | None => send (ok_body 0 0 0) ;;; flush
  end.

(* after the switch: the second handshake response arrives on the engine's plaintext *)
Definition init_phase2 (cfg : config) : M unit :=
  r <- next ;;
  match r with
  | None => fail EConnAborted
  | Some (q, pkt) =>
    match client_handshake pkt true with
    | HErr e => fail e
    | HOk _ user => set_seq ((q + 1) mod 256) ;;; auth_phase cfg user
    end
  end.

(* a whole connection whose client may request TLS; [plain] = what the engine yields after the switch *)
Definition run_on_tls (cfg : config) (sc : scripts) (plain : list rd) : M unit := fun w =>
  match init_phase1 cfg w with
  | (ROk (P1Plain user), s1) =>
      (auth_phase cfg user ;;;
       run_f fpext fptrunc errtab (S (length (s_buf w) + reads_len (s_reads w))) ([], sc)) s1
  | (ROk (P1Switch _), s1) =>
      let s2 := set_reads plain s1 in
      (init_phase2 cfg ;;;
       run_f fpext fptrunc errtab (S (reads_len plain)) ([], sc)) s2
  | (RErr e, s1) => (RErr e, s1)
  | (RPanic p, s1) => (RPanic p, s1)
  end.

End WithOracles.
