(* Model of src/params.rs (Params::next) and src/value/decode.rs (parse_from and
   the From<Value> conversions).  Definitions only. *)
From MsqlVerif Require Export Model.Utf8 Model.Value Model.Packet.
Open Scope N_scope.

(* ColumnType::try_from(u8) accepts exactly these codes *)
Definition coltype_known (c : N) : bool :=
  (c <=? 13) || ((15 <=? c) && (c <=? 20)) || (c =? 243) || (245 <=? c) && (c <=? 255).

Section WithOracles.
(* f32 -> f64 widening and f64 -> f32 narrowing on bit patterns: std's `f64::from` / `as f32`;
   supplied by the correspondence harness, hypotheses in theorems that need them *)
Variable fpext : N -> N.
Variable fptrunc : N -> N.

(* ReadMysqlExt::read_lenenc_int on a slice *)
Definition read_lenenc (i : bytes) : res (N * bytes) :=
  match i with
  | [] => RErr EUnexpectedEof
  | b :: r =>
    let x := N_of_b b in
    if x <=? 250 then ROk (x, r)
    else
      let rd n := match take_n n r with
                  | Some (v, r') => ROk (le_val v, r')
                  | None => RErr EUnexpectedEof end in
      if x =? 252 then rd 2%nat else if x =? 253 then rd 3%nat else if x =? 254 then rd 8%nat
      else RErr EOther
  end.

Definition read_fixed (n : nat) (i : bytes) : res (bytes * bytes) :=
  match take_n n i with Some p => ROk p | None => RErr EUnexpectedEof end.
(* read_u8 then read_bytes!(len) *)
Definition read_len8 (i : bytes) : res (bytes * bytes) :=
  match i with
  | [] => RErr EUnexpectedEof
  | b :: r => read_fixed (N.to_nat (N_of_b b)) r
  end.

(* ValueInner::parse_from *)
Definition parse_value (i : bytes) (ct : N) (unsigned : bool) : res (pinner * bytes) :=
  let int n := rbind (read_fixed n i) (fun '(v, r) =>
                 ROk (if unsigned then PIUInt (le_val v) else PIInt (le_val_s v), r)) in
  if is_bytes_col ct then
    rbind (read_lenenc i) (fun '(len, r) =>
      rbind (read_fixed (N.to_nat len) r) (fun '(v, r') => ROk (PIBytes v, r')))
  else match ct with
  | 1 => int 1%nat
  | 2 | 13 => int 2%nat
  | 3 | 9 => int 4%nat
  | 8 => int 8%nat
  | 4 => rbind (read_fixed 4 i) (fun '(v, r) => ROk (PIDouble (fpext (le_val v)), r))
  | 5 => rbind (read_fixed 8 i) (fun '(v, r) => ROk (PIDouble (le_val v), r))
  | 7 | 12 => rbind (read_len8 i) (fun '(v, r) => ROk (PIDatetime v, r))
  | 10 => rbind (read_len8 i) (fun '(v, r) => ROk (PIDate v, r))
  | 11 => rbind (read_len8 i) (fun '(v, r) => ROk (PITime v, r))
  | 6 => ROk (PINull, i)
  | _ => RErr EInvalidInput
  end.

(* --- Params iterator --- *)
Record pstate := {
  p_params : N;                    (* declared parameter count (u16) *)
  p_input : bytes;
  p_nullmap : option bytes;
  p_col : N;
  p_long : list (N * bytes);       (* long_data of the statement *)
  p_bound : list (N * bool);       (* bound_types of the statement: (type code, unsigned) *)
}.

Fixpoint lookup {A} (k : N) (l : list (N * A)) : option A :=
  match l with [] => None | (k', v) :: r => if k =? k' then Some v else lookup k r end.

Fixpoint parse_types (n : nat) (tm : bytes) : res (list (N * bool)) :=
  match n with
  | O => ROk []
  | S n' =>
    match tm with
    | t :: f :: r =>
        if coltype_known (N_of_b t) then
          rbind (parse_types n' r) (fun l => ROk ((N_of_b t, negb (N.land (N_of_b f) 128 =? 0)) :: l))
        else RPanic PParamsBadType
    | _ => RPanic PParamsSplitTypes
    end
  end.

(* first call: split off the NULL bitmap, read the new-params-bound flag and the type table *)
Definition params_header (p : pstate) : res pstate :=
  match p_nullmap p with
  | Some _ => ROk p
  | None =>
    let nl := N.to_nat ((p_params p + 7) / 8) in
    match take_n nl (p_input p) with
    | None => RPanic PParamsSplitNull
    | Some (nm, rest) =>
      match rest with
      | [] => ROk {| p_params := p_params p; p_input := rest; p_nullmap := Some nm; p_col := p_col p;
                     p_long := p_long p; p_bound := p_bound p |}
      | flag :: rest1 =>
        if byte_eqb flag x00 then
          ROk {| p_params := p_params p; p_input := rest1; p_nullmap := Some nm; p_col := p_col p;
                 p_long := p_long p; p_bound := p_bound p |}
        else
          match take_n (2 * N.to_nat (p_params p)) rest1 with
          | None => RPanic PParamsSplitTypes
          | Some (tm, rest2) =>
            rbind (parse_types (N.to_nat (p_params p)) tm) (fun bt =>
              ROk {| p_params := p_params p; p_input := rest2; p_nullmap := Some nm;
                     p_col := p_col p; p_long := p_long p; p_bound := bt |})
          end
      end
    end
  end.

(* Params::next *)
Definition params_next (p0 : pstate) : res (option (N * pinner) * pstate) :=
  rbind (params_header p0) (fun p =>
  if p_params p <=? p_col p then ROk (None, p)
  else
    match nth_error (p_bound p) (N.to_nat (p_col p)) with
    | None => RPanic PParamsBoundIndex
    | Some (ct, uns) =>
      let nm := match p_nullmap p with Some nm => nm | None => [] end in
      match nth_error nm (N.to_nat (p_col p / 8)) with
      | None => ROk (None, p)
      | Some b =>
        let adv inp := {| p_params := p_params p; p_input := inp; p_nullmap := p_nullmap p;
                          p_col := p_col p + 1; p_long := p_long p; p_bound := p_bound p |} in
        if N.testbit (N_of_b b) (p_col p mod 8) then ROk (Some (ct, PINull), adv (p_input p))
        else match lookup (p_col p) (p_long p) with
        | Some data => ROk (Some (ct, PIBytes data), adv (p_input p))
        | None =>
          match parse_value (p_input p) ct uns with
          | ROk (v, rest) => ROk (Some (ct, v), adv rest)
          | RErr _ => RPanic PParamsValue
          | RPanic s => RPanic s
          end
        end
      end
    end).

(* --- From<Value> conversions --- *)
Inductive conv :=
  | KNone | KU8 | KI8 | KU16 | KI16 | KU32 | KI32 | KU64 | KI64 | KF32 | KF64
  | KBytes | KStr | KDate | KDatetime | KDur.

Definition conv_int (w : N) (signed only_u only_i : bool) (v : pinner) : res convres :=
  let cast z := CvInt (if signed then wrap_s w z else wrap_u w z) in
  match v with
  | PIUInt n => if only_i then RPanic PConv else ROk (cast (Z.of_N n))
  | PIInt z => if only_u then RPanic PConv else ROk (cast z)
  | _ => RPanic PConv
  end.

Definition conv_date (v : bytes) : res convres :=
  match v with
  | [y0; y1; m; d] =>
      let y := Z.of_N (le_val [y0; y1]) in
      if valid_ymd y (N_of_b m) (N_of_b d) then ROk (CvDate y (N_of_b m) (N_of_b d)) else RPanic PConv
  | _ => RPanic PConv
  end.
Definition valid_hms (h mi s : N) : bool := (h <? 24) && (mi <? 60) && (s <? 60).
Definition conv_datetime (v : bytes) : res convres :=
  let mk (y0 y1 bm bd bh bmi bs : byte) (us : N) (has_us : bool) : res convres :=
    let y := Z.of_N (le_val [y0; y1]) in
    let m := N_of_b bm in let d := N_of_b bd in let h := N_of_b bh in
    let mi := N_of_b bmi in let s := N_of_b bs in
    if valid_ymd y m d && (if has_us then valid_hms_micro h mi s us else valid_hms h mi s)
    then ROk (CvDateTime y m d h mi s (us * 1000)) else RPanic PConv in
  match v with
  | [y0; y1; m; d] => mk y0 y1 m d x00 x00 x00 0 false
  | [y0; y1; m; d; h; mi; s] => mk y0 y1 m d h mi s 0 false
  | [y0; y1; m; d; h; mi; s; u0; u1; u2; u3] => mk y0 y1 m d h mi s (le_val [u0; u1; u2; u3]) true
  | _ => RPanic PConv
  end.
Definition conv_dur (v : bytes) : res convres :=
  let mk (neg d0 d1 d2 d3 h m s : byte) (us : N) : res convres :=
    if negb (byte_eqb neg x00) then RPanic PConv
    else if 4294967296 <=? us * 1000 then RPanic PConvOverflow
    else
      let secs := le_val [d0; d1; d2; d3] * 86400 + N_of_b h * 3600 + N_of_b m * 60 + N_of_b s in
      let nanos := us * 1000 in
      ROk (CvDur (secs + nanos / 1000000000) (nanos mod 1000000000)) in
  match v with
  | [] => ROk (CvDur 0 0)
  | [neg; d0; d1; d2; d3; h; m; s] => mk neg d0 d1 d2 d3 h m s 0
  | [neg; d0; d1; d2; d3; h; m; s; u0; u1; u2; u3] => mk neg d0 d1 d2 d3 h m s (le_val [u0; u1; u2; u3])
  | _ => RPanic PConv
  end.

Definition convert (k : conv) (v : pinner) : res (option convres) :=
  let some r := rbind r (fun x => ROk (Some x)) in
  match k with
  | KNone => ROk None
  | KU8 => some (conv_int 8 false false false v)
  | KI8 => some (conv_int 8 true false false v)
  | KU16 => some (conv_int 16 false false false v)
  | KI16 => some (conv_int 16 true false false v)
  | KU32 => some (conv_int 32 false false false v)
  | KI32 => some (conv_int 32 true false false v)
  | KU64 => some (conv_int 64 false true false v)
  | KI64 => some (conv_int 64 true false true v)
  | KF32 => match v with PIDouble b => ROk (Some (CvF32 (fptrunc b))) | _ => RPanic PConv end
  | KF64 => match v with PIDouble b => ROk (Some (CvF64 b)) | _ => RPanic PConv end
  | KBytes => match v with PIBytes b => ROk (Some (CvBytes b)) | _ => RPanic PConv end
  | KStr => match v with
            | PIBytes b => if utf8_valid b then ROk (Some (CvBytes b)) else RPanic PConv
            | _ => RPanic PConv end
  | KDate => match v with PIDate b => some (conv_date b) | _ => RPanic PConv end
  | KDatetime => match v with PIDatetime b => some (conv_datetime b) | _ => RPanic PConv end
  | KDur => match v with PITime b => some (conv_dur b) | _ => RPanic PConv end
  end.

End WithOracles.
