(* Model of src/value/encode.rs: every implementor of ToMysqlValue, text and
   binary encodings.  Definitions only. *)
From MsqlVerif Require Export Model.Codec.
Open Scope Z_scope.

Inductive ity := U8 | I8 | U16 | I16 | U32 | I32 | U64 | I64 | Usize | Isize.

(* mysql_common::value::Value *)
Inductive mycv :=
  | MNull | MBytes (bs : bytes) | MInt (z : Z) | MUInt (n : Z)
  | MFloat (bits : N) (shown : bytes) (bits64 : N)   (* f32: bits, Display text, bits of f64::from *)
  | MDouble (bits : N) (shown : bytes)
  | MDate (y mo d h mi s us : N) | MTime (neg : bool) (d h m s us : N).

Inductive value :=
  | VInt (t : ity) (z : Z)
  | VF32 (bits : N) (shown : bytes) (bits64 : N)
  | VF64 (bits : N) (shown : bytes)
  | VBytes (bs : bytes)                       (* [u8], Vec<u8>, str, String *)
  | VDate (y : Z) (m d : N)                   (* chrono::NaiveDate *)
  | VDateTime (y : Z) (m d h mi s nanos : N)  (* chrono::NaiveDateTime *)
  | VDur (secs nanos : N)                     (* std::time::Duration *)
  | VNone | VSome (v : value)                 (* Option<T> *)
  | VRef (v : value)                          (* &T *)
  | VMyc (m : mycv).

(* ---- integer types ---- *)
Definition ity_bytes (t : ity) : nat :=
  match t with U8 | I8 => 1 | U16 | I16 => 2 | U32 | I32 => 4 | _ => 8 end%nat.
Definition ity_signed (t : ity) : bool :=
  match t with I8 | I16 | I32 | I64 | Isize => true | _ => false end.
Definition int_lo (w : nat) (signed : bool) : Z := if signed then - 2 ^ (8 * Z.of_nat w - 1) else 0.
Definition int_hi (w : nat) (signed : bool) : Z :=
  if signed then 2 ^ (8 * Z.of_nat w - 1) - 1 else 2 ^ (8 * Z.of_nat w) - 1.
Definition in_int_range (w : nat) (signed : bool) (z : Z) : bool :=
  (int_lo w signed <=? z) && (z <=? int_hi w signed).
Definition ity_in_range (t : ity) (z : Z) : bool := in_int_range (ity_bytes t) (ity_signed t) z.

(* width in bytes of an integer column type *)
Definition int_col_bytes (ct : N) : option nat :=
  match ct with
  | 1%N => Some 1%nat                 (* TINY *)
  | 2%N | 13%N => Some 2%nat          (* SHORT, YEAR *)
  | 3%N | 9%N => Some 4%nat           (* LONG, INT24 *)
  | 8%N => Some 8%nat                 (* LONGLONG *)
  | _ => None
  end.

Definition bad {A} : res A := RErr EInvalidData.      (* fn bad(v, c) *)

(* to_mysql_bin for the ten integer types: the match arms of the ten impls, as one rule.
   fixed-width type of w_t bytes into a column of w_c bytes:
     w_c < w_t            : no arm                          -> Err
     w_c = w_t            : same signedness required        -> write / Err
     w_c > w_t, signed col: From (always fits)              -> write
     w_c > w_t, unsigned  : unsigned type: From; signed type: TryFrom (negative -> Err)
   usize / isize: TryFrom into the column's integer type. *)
Definition encode_int (t : ity) (z : Z) (ct : N) (csigned : bool) : res bytes :=
  match int_col_bytes ct with
  | None => bad
  | Some wc =>
    match t with
    | Usize | Isize =>
        if in_int_range wc csigned z then ROk (le_bytes_z wc z) else bad
    | _ =>
        let wt := ity_bytes t in
        if Nat.ltb wc wt then bad
        else if Nat.eqb wc wt then
          if Bool.eqb (ity_signed t) csigned then ROk (le_bytes_z wc z) else bad
        else if csigned then ROk (le_bytes_z wc z)
        else if z <? 0 then bad else ROk (le_bytes_z wc z)
    end
  end.

(* Value::Int(n) / Value::UInt(n) narrowing in `impl ToMysqlValue for myc::value::Value` *)
Definition encode_myc_int (n : Z) (ct : N) (csigned : bool) : res bytes :=
  if csigned then
    if in_int_range 1 true n then encode_int I8 n ct csigned
    else if in_int_range 2 true n then encode_int I16 n ct csigned
    else if in_int_range 4 true n then encode_int I32 n ct csigned
    else encode_int I64 n ct csigned
  else if n <? 0 then bad
  else if n <=? 255 then encode_int U8 n ct csigned
  else if n <=? 65535 then encode_int U16 n ct csigned
  else if n <=? 4294967295 then encode_int U32 n ct csigned
  else encode_int U64 n ct csigned.

(* ---- chrono validity (NaiveDate::from_ymd_opt, and_hms_micro_opt) ---- *)
Definition is_leap (y : Z) : bool :=
  ((y mod 4 =? 0) && negb (y mod 100 =? 0)) || (y mod 400 =? 0).
Definition days_in_month (y : Z) (m : N) : N :=
  match m with
  | 1 | 3 | 5 | 7 | 8 | 10 | 12 => 31
  | 4 | 6 | 9 | 11 => 30
  | 2 => if is_leap y then 29 else 28
  | _ => 0
  end%N.
Definition valid_ymd (y : Z) (m d : N) : bool := ((1 <=? d) && (d <=? days_in_month y m))%N.
Definition valid_hms_micro (h mi s us : N) : bool :=
  ((us * 1000 <? 4294967296) && (h <? 24) && (mi <? 60) && (s <? 60) &&
   negb ((1000000000 <=? us * 1000) && negb (s =? 59)) && (us * 1000 <? 2000000000))%N.

(* ---- text protocol ---- *)
Definition colon : byte := x3a.
Definition dash : byte := x2d.
Definition text_date (y : Z) (m d : N) : bytes :=
  dec_pad_Z 4 y ++ dash :: dec_pad_N 2 m ++ dash :: dec_pad_N 2 d.
Definition text_hms (h mi s : N) : bytes :=
  dec_pad_N 2 h ++ colon :: dec_pad_N 2 mi ++ colon :: dec_pad_N 2 s.
Definition text_datetime (y : Z) (m d h mi s nanos : N) : bytes :=
  let us := (nanos / 1000)%N in
  text_date y m d ++ x20 :: text_hms h mi s ++
  (if (us =? 0)%N then [] else x2e :: dec_pad_N 6 us).
Definition text_duration (secs nanos : N) : bytes :=
  let us := (nanos / 1000)%N in
  text_hms (secs / 3600) ((secs mod 3600) / 60) (secs mod 60) ++
  (if (us =? 0)%N then [] else x2e :: dec_pad_N 6 us).

Definition myc_time_to_dur (d h m s us : N) : N * N :=
  ((d * 86400 + h * 3600 + m * 60 + s + us / 1000000)%N, ((us mod 1000000) * 1000)%N).

(* the content of a text-protocol cell: None = NULL (0xfb), Some s = the string sent
   length-encoded (write_lenenc_str) *)
Definition myc_text_cell (m : mycv) : res (option bytes) :=
  match m with
  | MNull => ROk None
  | MBytes bs => ROk (Some bs)
  | MInt z | MUInt z => ROk (Some (dec_Z z))
  | MFloat _ shown _ | MDouble _ shown => ROk (Some shown)
  | MDate y mo d h mi s us =>
      if valid_ymd (Z.of_N y) mo d then
        if valid_hms_micro h mi s us
        then ROk (Some (text_datetime (Z.of_N y) mo d h mi s (us * 1000)))
        else RErr EOther
      else RErr EOther
  | MTime neg d h m s us =>
      if neg then RErr EOther
      else let '(secs, nanos) := myc_time_to_dur d h m s us in
           ROk (Some (text_duration secs nanos))
  end.

Fixpoint text_cell (v : value) : res (option bytes) :=
  match v with
  | VInt _ z => ROk (Some (dec_Z z))
  | VF32 _ shown _ | VF64 _ shown => ROk (Some shown)
  | VBytes bs => ROk (Some bs)
  | VDate y m d => ROk (Some (text_date y m d))
  | VDateTime y m d h mi s n => ROk (Some (text_datetime y m d h mi s n))
  | VDur secs nanos => ROk (Some (text_duration secs nanos))
  | VNone => ROk None
  | VSome v' | VRef v' => text_cell v'
  | VMyc m => myc_text_cell m
  end.

Definition enc_cell (c : option bytes) : bytes :=
  match c with None => [xfb] | Some s => lenenc_str s end.
Definition to_text (v : value) : res bytes := rbind (text_cell v) (fun c => ROk (enc_cell c)).

(* ---- binary protocol ---- *)
Definition is_bytes_col (ct : N) : bool :=
  match ct with
  | 254 | 253 | 252 | 249 | 250 | 251 | 248 | 247 | 0 | 15 | 16 | 246 | 255 | 245 => true
  | _ => false
  end%N.

Definition bin_f32 (bits bits64 ct : N) : res bytes :=
  match ct with
  | 5%N => ROk (le_bytes 8 bits64)
  | 4%N => ROk (le_bytes 4 bits)
  | _ => bad
  end.
Definition bin_f64 (bits ct : N) : res bytes :=
  match ct with 5%N => ROk (le_bytes 8 bits) | _ => bad end.
Definition bin_bytes (bs : bytes) (ct : N) : res bytes :=
  if is_bytes_col ct then ROk (lenenc_str bs) else bad.
Definition bin_date (y : Z) (m d ct : N) : res bytes :=
  match ct with
  | 10%N => ROk (x04 :: le_bytes_z 2 y ++ [b_of_N m; b_of_N d])
  | _ => bad
  end.
Definition bin_datetime (y : Z) (m d h mi s nanos ct : N) : res bytes :=
  match ct with
  | 12%N | 7%N =>
      let us := (nanos / 1000)%N in
      ROk ((if (us =? 0)%N then x07 else x0b) :: le_bytes_z 2 y ++
           [b_of_N m; b_of_N d; b_of_N h; b_of_N mi; b_of_N s] ++
           (if (us =? 0)%N then [] else le_bytes 4 us))
  | _ => bad
  end.
Definition bin_duration (secs nanos ct : N) : res bytes :=
  match ct with
  | 11%N =>
      let d := (secs / 86400)%N in
      let us := (nanos / 1000)%N in
      if (34 <? d)%N then bad
      else if ((secs =? 0) && (us =? 0))%N then ROk [x00]
      else ROk ((if (us =? 0)%N then x08 else x0c) :: x00 :: le_bytes 4 d ++
                [b_of_N ((secs mod 86400) / 3600); b_of_N ((secs mod 3600) / 60);
                 b_of_N (secs mod 60)] ++
                (if (us =? 0)%N then [] else le_bytes 4 us))
  | _ => bad
  end.

Definition col_signed (c : column) : bool := negb (has_flag (c_flags c) UNSIGNED_FLAG).

Definition myc_bin (m : mycv) (c : column) : res bytes :=
  let ct := c_type c in
  match m with
  | MNull => RPanic PNullBin
  | MBytes bs => bin_bytes bs ct
  | MInt z => encode_myc_int z ct (col_signed c)
  | MUInt z => encode_int U64 z ct (col_signed c)
  | MFloat bits _ bits64 => bin_f32 bits bits64 ct
  | MDouble bits _ => bin_f64 bits ct
  | MDate y mo d h mi s us =>
      if valid_ymd (Z.of_N y) mo d then
        if valid_hms_micro h mi s us
        then bin_datetime (Z.of_N y) mo d h mi s (us * 1000) ct
        else RErr EOther
      else RErr EOther
  | MTime neg d h mi s us =>
      if neg then RErr EOther
      else let '(secs, nanos) := myc_time_to_dur d h mi s us in bin_duration secs nanos ct
  end.

Fixpoint to_bin (v : value) (c : column) : res bytes :=
  match v with
  | VInt t z => encode_int t z (c_type c) (col_signed c)
  | VF32 bits _ bits64 => bin_f32 bits bits64 (c_type c)
  | VF64 bits _ => bin_f64 bits (c_type c)
  | VBytes bs => bin_bytes bs (c_type c)
  | VDate y m d => bin_date y m d (c_type c)
  | VDateTime y m d h mi s n => bin_datetime y m d h mi s n (c_type c)
  | VDur secs nanos => bin_duration secs nanos (c_type c)
  | VNone => RPanic PNullBin
  | VSome v' | VRef v' => to_bin v' c
  | VMyc m => myc_bin m c
  end.

Fixpoint is_null (v : value) : bool :=
  match v with
  | VNone => true
  | VRef v' => is_null v'
  | VMyc MNull => true
  | _ => false
  end.
