(* ErrorKind lookups over the generated tables (Gen/ErrorCodes.v), with Rust `match`
   semantics: the first matching arm wins.  Definitions only. *)
From MsqlVerif Require Export Model.Base.
From MsqlVerif Require Import Gen.ErrorCodes.
Open Scope N_scope.

Fixpoint kind_code_in (l : list (N * String.string * N)) (idx : N) : option N :=
  match l with
  | [] => None
  | (i, _, c) :: r => if i =? idx then Some c else kind_code_in r idx
  end.
Definition kind_code (idx : N) : option N := kind_code_in kinds idx.

Fixpoint from_u16_in (l : list (N * N)) (code : N) : option N :=
  match l with
  | [] => None
  | (c, i) :: r => if c =? code then Some i else from_u16_in r code
  end.
(* ErrorKind::from(code); None = the wildcard arm (panic) *)
Definition from_u16 (code : N) : option N := from_u16_in from_arms code.

Fixpoint mem_N (x : N) (l : list N) : bool :=
  match l with [] => false | y :: r => (x =? y) || mem_N x r end.
Fixpoint sqlstate_in (l : list (list N * bytes)) (idx : N) : option bytes :=
  match l with
  | [] => None
  | (ks, st) :: r => if mem_N idx ks then Some st else sqlstate_in r idx
  end.
Definition sqlstate (idx : N) : option bytes := sqlstate_in state_arms idx.

(* what write_err(ErrorKind::from(code), ..) puts on the wire: (kind as u16, kind.sqlstate()) *)
Definition errtab (code : N) : option (N * bytes) :=
  match from_u16 code with
  | None => None
  | Some idx =>
    match kind_code idx, sqlstate idx with
    | Some c, Some st => Some (c, st)
    | _, _ => None
    end
  end.
