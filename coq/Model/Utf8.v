(* std::str::from_utf8 acceptance and the str trimming used for `USE <db>`.
   Definitions only. *)
From MsqlVerif Require Export Model.Base.

Definition in_rng (lo hi : N) (b : byte) : bool := (lo <=? N_of_b b) && (N_of_b b <=? hi).
Definition cont (b : byte) : bool := in_rng 128 191 b.

(* Unicode Table 3-7 (well-formed UTF-8 byte sequences), as implemented by core::str *)
Fixpoint utf8_valid (bs : bytes) : bool :=
  match bs with
  | [] => true
  | b0 :: r0 =>
    if in_rng 0 127 b0 then utf8_valid r0
    else match r0 with
    | [] => false
    | b1 :: r1 =>
      if in_rng 194 223 b0 then cont b1 && utf8_valid r1
      else match r1 with
      | [] => false
      | b2 :: r2 =>
        if in_rng 224 224 b0 then in_rng 160 191 b1 && cont b2 && utf8_valid r2
        else if in_rng 225 236 b0 || in_rng 238 239 b0 then cont b1 && cont b2 && utf8_valid r2
        else if in_rng 237 237 b0 then in_rng 128 159 b1 && cont b2 && utf8_valid r2
        else match r2 with
        | [] => false
        | b3 :: r3 =>
          if in_rng 240 240 b0 then in_rng 144 191 b1 && cont b2 && cont b3 && utf8_valid r3
          else if in_rng 241 243 b0 then cont b1 && cont b2 && cont b3 && utf8_valid r3
          else if in_rng 244 244 b0 then in_rng 128 143 b1 && cont b2 && cont b3 && utf8_valid r3
          else false
        end
      end
    end
  end.

(* UTF-8 encodings of the code points with the White_Space property (char::is_whitespace) *)
Definition ws_seqs : list bytes :=
  [ [x09]; [x0a]; [x0b]; [x0c]; [x0d]; [x20];
    [xc2; x85]; [xc2; xa0]; [xe1; x9a; x80];
    [xe2; x80; x80]; [xe2; x80; x81]; [xe2; x80; x82]; [xe2; x80; x83]; [xe2; x80; x84];
    [xe2; x80; x85]; [xe2; x80; x86]; [xe2; x80; x87]; [xe2; x80; x88]; [xe2; x80; x89];
    [xe2; x80; x8a]; [xe2; x80; xa8]; [xe2; x80; xa9]; [xe2; x80; xaf]; [xe2; x81; x9f];
    [xe3; x80; x80] ].

Fixpoint strip_one (pats : list bytes) (s : bytes) : option bytes :=
  match pats with
  | [] => None
  | p :: ps => if is_prefix p s then Some (skipn (length p) s) else strip_one ps s
  end.
Fixpoint strip_many (fuel : nat) (pats : list bytes) (s : bytes) : bytes :=
  match fuel with
  | O => s
  | S f => match strip_one pats s with
           | Some s' => strip_many f pats s'
           | None => s
           end
  end.
Definition trim_start_pats (pats : list bytes) (s : bytes) : bytes := strip_many (length s) pats s.
Definition trim_end_pats (pats : list bytes) (s : bytes) : bytes :=
  rev (trim_start_pats (map (@rev byte) pats) (rev s)).

(* str::trim, str::trim_end_matches(';'), str::trim_matches('`') on valid UTF-8 *)
Definition trim_ws (s : bytes) : bytes := trim_end_pats ws_seqs (trim_start_pats ws_seqs s).
Definition use_schema (arg : bytes) : bytes :=
  let s1 := trim_ws arg in
  let s2 := trim_end_pats [[x3b]] s1 in
  trim_end_pats [[x60]] (trim_start_pats [[x60]] s2).
