(* A pure (transport-free) account of what the server does with one command and with a whole
   conversation, when nothing fails: which shim callbacks are invoked with which arguments, which
   logical messages are sent in reply, and how the statement registry evolves.
   Proofs/ServerRun.v shows that Model/Server.v's monadic run loop over PacketConn refines this on a
   fault-free transport; the history-level properties (C02, C10, C16, C17) are then proved about
   these pure functions by induction over conversations.  Definitions only. *)
From MsqlVerif Require Export Model.Server Spec.Render.
Open Scope N_scope.

Section WithOracles.
Variable fpext : N -> N.
Variable fptrunc : N -> N.
Variable errtab : N -> option (N * bytes).

(* what one command makes the server do *)
Record areply := { a_calls : list call; a_msgs : list bytes }.

Definition no_tag (t : option N) : bool := match t with None => true | Some _ => false end.

(* pulling parameters, purely: calls logged + final iterator state; None = panic / error *)
Fixpoint abs_pull (fuel : nat) (n : option nat) (convs : list conv) (p : pstate)
  : option (list call * pstate) :=
  match fuel with
  | O => Some ([], p)
  | S f =>
    match n with
    | Some O => Some ([], p)
    | _ =>
      match params_next fpext p with
      | ROk (None, p') => Some ([], p')
      | ROk (Some (ct, v), p') =>
          let k := match convs with [] => KNone | k :: _ => k end in
          match convert fptrunc k v with
          | ROk r =>
              match abs_pull f (match n with Some (S m) => Some m | _ => None end) (tl convs) p' with
              | Some (cs, p'') =>
                  Some (CParam ct v :: match r with Some x => [CConv x] | None => [] end ++ cs, p'')
              | None => None
              end
          | _ => None
          end
      | _ => None
      end
    end
  end.

Definition abs_init (schema : bytes) (s : ss) : option (areply * ss) :=
  let '(st, sc) := s in
  let '((prog, tag), sc') := pop_i sc in
  if negb (no_tag tag) then None else
  match prog with
  | IOk => Some ({| a_calls := [CInit schema]; a_msgs := [ok_body 0 0 0] |}, (st, sc'))
  | IDefault => Some ({| a_calls := [CInit schema]; a_msgs := [ok_body 0 0 0] |}, (st, sc'))
  | IError code msg =>
      match err_msg_of errtab code msg with
      | Some m => Some ({| a_calls := [CInit schema]; a_msgs := [m] |}, (st, sc'))
      | None => None end
  | INoReply => Some ({| a_calls := [CInit schema]; a_msgs := [] |}, (st, sc'))
  end.

Definition max_packet_prog : qprog :=
  QStart [{| c_table := []; c_name := at_max_allowed_packet; c_type := 3; c_flags := 32 |}]
         (RWriteRow [VInt U32 67108864%Z] Propagate RFinish).

Definition abs_handle (cmd : command) (s : ss) : option (areply * ss) :=
  let '(st, sc) := s in
  match cmd with
  | CmdQuery q =>
      if is_prefix sel_upper q || is_prefix sel_lower q then
        match pm_q errtab false None
                (if bytes_eqb (skipn 9 q) max_allowed_packet then max_packet_prog else QCompleted 0 0) with
        | Some msgs => Some ({| a_calls := []; a_msgs := msgs |}, s)
        | None => None end
      else if is_prefix use_upper q || is_prefix use_lower q then
        if utf8_valid (skipn 4 q) then abs_init (use_schema (skipn 4 q)) s else None
      else if utf8_valid q then
        let '((prog, tag), sc') := pop_q sc in
        if negb (no_tag tag) then None else
        match pm_q errtab false None prog with
        | Some msgs => Some ({| a_calls := [CQuery q]; a_msgs := msgs |}, (st, sc'))
        | None => None end
      else None
  | CmdPrepare q =>
      if utf8_valid q then
        let '((prog, tag), sc') := pop_p sc in
        if negb (no_tag tag) then None else
        match prog with
        | PReply id params cols =>
            Some ({| a_calls := [CPrepare q]; a_msgs := prepare_ok_msgs id params cols |},
                  (insert_key id {| sd_params := Nlen params mod 65536; sd_bound := []; sd_long := [] |} st, sc'))
        | PError code msg =>
            match err_msg_of errtab code msg with
            | Some m => Some ({| a_calls := [CPrepare q]; a_msgs := [m] |}, (st, sc'))
            | None => None end
        | PNoReply => Some ({| a_calls := [CPrepare q]; a_msgs := [] |}, (st, sc'))
        end
      else None
  | CmdExecute id params =>
      match lookup id st with
      | None => None
      | Some sd =>
        if negb (params_valid fpext sd params) then None else
        let '(x, sc') := pop_x sc in
        if negb (no_tag (x_ret x)) then None else
        let p0 := pstate_hdr sd params in
        match abs_pull (S (N.to_nat (sd_params sd))) (x_pull x) (x_convs x) p0 with
        | None => None
        | Some (cs, p) =>
          match pm_q errtab true None (x_prog x) with
          | Some msgs =>
              Some ({| a_calls := CExecute id :: cs; a_msgs := msgs |},
                    (insert_key id {| sd_params := sd_params sd; sd_bound := p_bound p; sd_long := [] |} st, sc'))
          | None => None end
        end
      end
  | CmdLongData id param data =>
      match lookup id st with
      | None => None
      | Some sd =>
          let old := match lookup param (sd_long sd) with Some d => d | None => [] end in
          Some ({| a_calls := []; a_msgs := [] |},
                (insert_key id {| sd_params := sd_params sd; sd_bound := sd_bound sd;
                                  sd_long := insert_key param (old ++ data) (sd_long sd) |} st, sc))
      end
  | CmdClose id => Some ({| a_calls := [CClose id]; a_msgs := [] |}, (remove_key id st, sc))
  | CmdListFields _ =>
      Some ({| a_calls := [];
               a_msgs := coldefs_msgs [{| c_table := []; c_name := not_implemented; c_type := 2; c_flags := 32 |}]
                                      true true |}, s)
  | CmdInit schema => if utf8_valid schema then abs_init schema s else None
  | CmdPing => Some ({| a_calls := []; a_msgs := [ok_body 0 0 0] |}, s)
  | CmdQuit => None
  end.

(* a conversation: framed commands (sequence id of the first packet, payload), none of them QUIT;
   one reply per command *)
Fixpoint abs_run (cmds : list (N * bytes)) (s : ss) : option (list areply * ss) :=
  match cmds with
  | [] => Some ([], s)
  | (_, payload) :: r =>
    match parse payload with
    | None | Some CmdQuit => None
    | Some cmd =>
      match abs_handle cmd s with
      | None => None
      | Some (rep, s') =>
        match abs_run r s' with
        | Some (reps, s'') => Some (rep :: reps, s'')
        | None => None end
      end
    end
  end.

End WithOracles.
