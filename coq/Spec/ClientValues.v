(* Specification: how a client reads typed values out of text-protocol cells (decimal integers,
   DATE / DATETIME / TIME strings).  Definitions only. *)
From MsqlVerif Require Export Model.Base.
Open Scope N_scope.

Definition digit_val (b : byte) : option N :=
  let d := N_of_b b in if (48 <=? d) && (d <=? 57) then Some (d - 48) else None.
Fixpoint c_digits (acc : N) (bs : bytes) : option N :=
  match bs with
  | [] => Some acc
  | b :: r => match digit_val b with Some d => c_digits (acc * 10 + d) r | None => None end
  end.
(* unsigned decimal, at least one digit *)
Definition c_udec (bs : bytes) : option N :=
  match bs with [] => None | _ => c_digits 0 bs end.
(* signed decimal *)
Definition c_dec (bs : bytes) : option Z :=
  match bs with
  | [] => None
  | b :: r => if byte_eqb b x2d
              then match c_udec r with Some n => Some (- Z.of_N n)%Z | None => None end
              else match c_udec bs with Some n => Some (Z.of_N n) | None => None end
  end.

(* split at the first occurrence of a separator *)
Fixpoint split_at (sep : byte) (bs : bytes) : option (bytes * bytes) :=
  match bs with
  | [] => None
  | b :: r => if byte_eqb b sep then Some ([], r)
              else match split_at sep r with Some (a, c) => Some (b :: a, c) | None => None end
  end.

(* "YYYY-MM-DD" (year of at least four digits) *)
Definition c_text_date (bs : bytes) : option (N * N * N) :=
  match split_at x2d bs with
  | Some (y, r) => match split_at x2d r with
                   | Some (m, d) =>
                       match c_udec y, c_udec m, c_udec d with
                       | Some y', Some m', Some d' => Some (y', m', d')
                       | _, _, _ => None end
                   | None => None end
  | None => None
  end.
(* "H..H:MM:SS" or "H..H:MM:SS.uuuuuu" -> (h, m, s, micros) *)
Definition c_text_time (bs : bytes) : option (N * N * N * N) :=
  match split_at x3a bs with
  | Some (h, r) =>
    match split_at x3a r with
    | Some (m, r2) =>
      let '(s, us) := match split_at x2e r2 with Some (s, f) => (s, Some f) | None => (r2, None) end in
      match c_udec h, c_udec m, c_udec s with
      | Some h', Some m', Some s' =>
          match us with
          | None => Some (h', m', s', 0)
          | Some f => if Nat.eqb (length f) 6
                      then match c_udec f with Some u => Some (h', m', s', u) | None => None end
                      else None
          end
      | _, _, _ => None
      end
    | None => None end
  | None => None
  end.
(* "YYYY-MM-DD HH:MM:SS[.uuuuuu]" *)
Definition c_text_datetime (bs : bytes) : option (N * N * N * (N * N * N * N)) :=
  match split_at x20 bs with
  | Some (d, t) => match c_text_date d, c_text_time t with
                   | Some (y, m, dd), Some hmsu => Some (y, m, dd, hmsu)
                   | _, _ => None end
  | None => None
  end.
