(* Specification: MySQL packet framing, as a client produces and expects it.
   A logical message of payload p, first sequence id q, packet limit M:
     maximal M-byte packets with ids q, q+1, ... (mod 256), then one shorter (possibly empty) packet. *)
From MsqlVerif Require Export Model.Packet.
Open Scope N_scope.

(* the packets (header included) of one message *)
Fixpoint frame_pkts_f (fuel : nat) (lim q : N) (p : bytes) : list bytes :=
  match fuel with
  | O => []
  | S f =>
    if lim <=? Nlen p
    then (le_bytes 3 lim ++ b_of_N q :: firstn (N.to_nat lim) p)
         :: frame_pkts_f f lim ((q + 1) mod 256) (skipn (N.to_nat lim) p)
    else [le_bytes 3 (Nlen p) ++ b_of_N q :: p]
  end.
Definition frame_pkts (lim q : N) (p : bytes) : list bytes := frame_pkts_f (S (length p)) lim q p.
Definition frame (lim q : N) (p : bytes) : bytes := concat (frame_pkts lim q p).

(* number of packets a message of this payload occupies *)
Definition npackets (lim : N) (p : bytes) : N := Nlen p / lim + 1.
(* sequence id of the last packet of the message *)
Definition last_seq (lim q : N) (p : bytes) : N := (q + Nlen p / lim) mod 256.

(* consecutive messages of one exchange: ids keep counting *)
Fixpoint frame_all_pkts (lim q : N) (msgs : list bytes) : list bytes :=
  match msgs with
  | [] => []
  | m :: r => frame_pkts lim q m ++ frame_all_pkts lim ((q + npackets lim m) mod 256) r
  end.
Definition frame_all (lim q : N) (msgs : list bytes) : bytes := concat (frame_all_pkts lim q msgs).
Fixpoint seq_after (lim q : N) (msgs : list bytes) : N :=
  match msgs with
  | [] => q
  | m :: r => seq_after lim ((q + npackets lim m) mod 256) r
  end.

(* the bytes a run has handed to the transport so far, oldest first *)
Fixpoint written_rev (tr : list event) : list bytes :=
  match tr with
  | [] => []
  | EWrite bs :: r => bs :: written_rev r
  | _ :: r => written_rev r
  end.
Definition written (s : st) : bytes := concat (rev (written_rev (s_trace s))).

(* byte-at-a-time view of PacketConn::write *)
Definition write1 (b : byte) : M unit := fun s =>
  let s1 := set_tw (s_tw s ++ [b]) s in
  if Nlen (s_tw s1) =? s_lim s then end_packet s1 else (ROk tt, s1).
Fixpoint write_bytes (bs : bytes) : M unit :=
  match bs with
  | [] => ret tt
  | b :: r => write1 b ;;; write_bytes r
  end.

(* client-side reassembly of a byte stream into messages: (first id, last id, payload);
   packets of one message must carry consecutive ids (mod 256) *)
Fixpoint deframe_f (fuel : nat) (lim : N) (cur : option (N * N * bytes)) (i : bytes)
  : option (list (N * N * bytes)) :=
  match fuel with
  | O => None
  | S f =>
    match i with
    | [] => match cur with None => Some [] | Some _ => None end
    | a :: b :: c :: q :: r =>
        let len := le_val [a; b; c] in
        match take_cnt r len with
        | None => None
        | Some (body, rest) =>
          let ok := match cur with
                    | None => true
                    | Some (_, prev, _) => N_of_b q =? (prev + 1) mod 256 end in
          if negb ok then None else
          let '(q0, p0) := match cur with None => (N_of_b q, []) | Some (f0, _, p) => (f0, p) end in
          if len =? lim then deframe_f f lim (Some (q0, N_of_b q, p0 ++ body)) rest
          else match deframe_f f lim None rest with
               | Some l => Some ((q0, N_of_b q, p0 ++ body) :: l)
               | None => None
               end
        end
    | _ => None
    end
  end.
Definition deframe (lim : N) (i : bytes) : option (list (N * N * bytes)) :=
  deframe_f (S (length i)) lim None i.
