(* Specification: a conformant MySQL client's view of server messages (protocol 4.1 without
   CLIENT_DEPRECATE_EOF, which is what the greeting negotiates).  Deliberately short and written
   independently of the server model: decoders for OK / EOF / ERR / column definitions / text and
   binary rows, and the response state machine.  Definitions only. *)
From MsqlVerif Require Export Model.Codec.
Open Scope N_scope.

(* ---- primitive readers ---- *)
Definition c_take (n : nat) (i : bytes) : option (bytes * bytes) := take_n n i.

Definition c_lenenc (i : bytes) : option (N * bytes) :=
  match i with
  | [] => None
  | b :: r =>
    let x := N_of_b b in
    if x <? 251 then Some (x, r)
    else if x =? 252 then obind (c_take 2 r) (fun '(v, r') => Some (le_val v, r'))
    else if x =? 253 then obind (c_take 3 r) (fun '(v, r') => Some (le_val v, r'))
    else if x =? 254 then obind (c_take 8 r) (fun '(v, r') => Some (le_val v, r'))
    else None
  end.
Definition c_lenenc_str (i : bytes) : option (bytes * bytes) :=
  obind (c_lenenc i) (fun '(n, r) => take_cnt r n).

(* ---- packets ---- *)
Record okp := { ok_rows : N; ok_id : N; ok_status : N; ok_warnings : N }.
Definition c_ok (m : bytes) : option okp :=
  match m with
  | b :: r =>
    if byte_eqb b x00 then
      obind (c_lenenc r) (fun '(rows, r1) =>
      obind (c_lenenc r1) (fun '(id, r2) =>
      obind (c_take 2 r2) (fun '(stat, r3) =>
      obind (c_take 2 r3) (fun '(warn, _) =>
        Some {| ok_rows := rows; ok_id := id; ok_status := le_val stat; ok_warnings := le_val warn |}))))
    else None
  | [] => None
  end.

(* EOF: 0xfe, two warning bytes, two status bytes; always shorter than 9 bytes *)
Definition c_eof (m : bytes) : option N :=
  match m with
  | [b; _; _; s0; s1] => if byte_eqb b xfe then Some (le_val [s0; s1]) else None
  | _ => None
  end.

Record errp := { err_code : N; err_state : bytes; err_msg : bytes }.
Definition c_err (m : bytes) : option errp :=
  match m with
  | b :: c0 :: c1 :: h :: s0 :: s1 :: s2 :: s3 :: s4 :: msg =>
      if byte_eqb b xff && byte_eqb h x23
      then Some {| err_code := le_val [c0; c1]; err_state := [s0; s1; s2; s3; s4]; err_msg := msg |}
      else None
  | _ => None
  end.

(* column definition (Protocol::ColumnDefinition41); trailing bytes (COM_FIELD_LIST default) allowed *)
Definition c_coldef (m : bytes) : option column :=
  obind (c_lenenc_str m) (fun '(catalog, r1) =>
  if negb (bytes_eqb catalog def_str) then None else
  obind (c_lenenc_str r1) (fun '(_, r2) =>
  obind (c_lenenc_str r2) (fun '(table, r3) =>
  obind (c_lenenc_str r3) (fun '(_, r4) =>
  obind (c_lenenc_str r4) (fun '(name, r5) =>
  obind (c_lenenc_str r5) (fun '(_, r6) =>
  obind (c_lenenc r6) (fun '(fixed, r7) =>
  if negb (fixed =? 12) then None else
  obind (c_take 2 r7) (fun '(_, r8) =>
  obind (c_take 4 r8) (fun '(_, r9) =>
  obind (c_take 1 r9) (fun '(ty, r10) =>
  obind (c_take 2 r10) (fun '(fl, r11) =>
  obind (c_take 3 r11) (fun '(_, _) =>
    Some {| c_table := table; c_name := name; c_type := le_val ty; c_flags := le_val fl |})))))))))))).

(* ---- rows ---- *)
Inductive cell := CNull | CText (bs : bytes).

Fixpoint c_text_cells (n : nat) (i : bytes) : option (list cell * bytes) :=
  match n with
  | O => Some ([], i)
  | S n' =>
    match i with
    | [] => None
    | b :: r =>
      if byte_eqb b xfb then
        obind (c_text_cells n' r) (fun '(cs, rest) => Some (CNull :: cs, rest))
      else
        obind (c_lenenc_str i) (fun '(v, r1) =>
        obind (c_text_cells n' r1) (fun '(cs, rest) => Some (CText v :: cs, rest)))
    end
  end.
(* a text row message must consist of exactly n cells *)
Definition c_text_row (n : nat) (m : bytes) : option (list cell) :=
  match c_text_cells n m with Some (cs, []) => Some cs | _ => None end.

(* binary values, decoded by the advertised column type and signedness *)
Inductive binval :=
  | BNull
  | BInt (z : Z)
  | BF32 (bits : N) | BF64 (bits : N)
  | BBytes (bs : bytes)
  | BDate (y mo d h mi s us : N)                 (* DATE / DATETIME / TIMESTAMP *)
  | BTime (neg : bool) (days h mi s us : N).

Definition is_bytes_type (ct : N) : bool :=
  match ct with
  | 254 | 253 | 252 | 249 | 250 | 251 | 248 | 247 | 0 | 15 | 16 | 246 | 255 | 245 => true
  | _ => false
  end.

Definition c_bin_int (w : nat) (unsigned : bool) (i : bytes) : option (binval * bytes) :=
  obind (c_take w i) (fun '(v, r) =>
    Some (BInt (if unsigned then Z.of_N (le_val v) else le_val_s v), r)).

Definition c_bin_value (ct : N) (unsigned : bool) (i : bytes) : option (binval * bytes) :=
  if is_bytes_type ct then obind (c_lenenc_str i) (fun '(v, r) => Some (BBytes v, r))
  else match ct with
  | 1 => c_bin_int 1 unsigned i
  | 2 | 13 => c_bin_int 2 unsigned i
  | 3 | 9 => c_bin_int 4 unsigned i
  | 8 => c_bin_int 8 unsigned i
  | 4 => obind (c_take 4 i) (fun '(v, r) => Some (BF32 (le_val v), r))
  | 5 => obind (c_take 8 i) (fun '(v, r) => Some (BF64 (le_val v), r))
  | 10 | 12 | 7 =>
      match i with
      | [] => None
      | l :: r =>
        match N_of_b l with
        | 0 => Some (BDate 0 0 0 0 0 0 0, r)
        | 4 => match r with
               | y0 :: y1 :: mo :: d :: r' => Some (BDate (le_val [y0; y1]) (N_of_b mo) (N_of_b d) 0 0 0 0, r')
               | _ => None end
        | 7 => match r with
               | y0 :: y1 :: mo :: d :: h :: mi :: s :: r' =>
                   Some (BDate (le_val [y0; y1]) (N_of_b mo) (N_of_b d) (N_of_b h) (N_of_b mi) (N_of_b s) 0, r')
               | _ => None end
        | 11 => match r with
                | y0 :: y1 :: mo :: d :: h :: mi :: s :: u0 :: u1 :: u2 :: u3 :: r' =>
                    Some (BDate (le_val [y0; y1]) (N_of_b mo) (N_of_b d) (N_of_b h) (N_of_b mi) (N_of_b s)
                                (le_val [u0; u1; u2; u3]), r')
                | _ => None end
        | _ => None
        end
      end
  | 11 =>
      match i with
      | [] => None
      | l :: r =>
        match N_of_b l with
        | 0 => Some (BTime false 0 0 0 0 0, r)
        | 8 => match r with
               | ng :: d0 :: d1 :: d2 :: d3 :: h :: mi :: s :: r' =>
                   Some (BTime (negb (byte_eqb ng x00)) (le_val [d0; d1; d2; d3]) (N_of_b h) (N_of_b mi) (N_of_b s) 0, r')
               | _ => None end
        | 12 => match r with
                | ng :: d0 :: d1 :: d2 :: d3 :: h :: mi :: s :: u0 :: u1 :: u2 :: u3 :: r' =>
                    Some (BTime (negb (byte_eqb ng x00)) (le_val [d0; d1; d2; d3]) (N_of_b h) (N_of_b mi) (N_of_b s)
                                (le_val [u0; u1; u2; u3]), r')
                | _ => None end
        | _ => None
        end
      end
  | _ => None
  end.

(* NULL bitmap of a binary resultset row: offset 2 *)
Definition bitmap_bit (bm : bytes) (pos : nat) : bool :=
  match nth_error bm (pos / 8) with
  | Some b => N.testbit (N_of_b b) (N.of_nat (pos mod 8))
  | None => false
  end.
Fixpoint c_bin_cells (cols : list column) (idx : nat) (bm : bytes) (i : bytes)
  : option (list binval * bytes) :=
  match cols with
  | [] => Some ([], i)
  | c :: cs =>
    if bitmap_bit bm (idx + 2) then
      obind (c_bin_cells cs (S idx) bm i) (fun '(vs, rest) => Some (BNull :: vs, rest))
    else
      obind (c_bin_value (c_type c) (has_flag (c_flags c) UNSIGNED_FLAG) i) (fun '(v, r) =>
      obind (c_bin_cells cs (S idx) bm r) (fun '(vs, rest) => Some (v :: vs, rest)))
  end.
Definition c_bin_row (cols : list column) (m : bytes) : option (list binval) :=
  match m with
  | h :: r =>
    if byte_eqb h x00 then
      obind (c_take ((length cols + 7 + 2) / 8) r) (fun '(bm, r1) =>
        match c_bin_cells cols 0 bm r1 with Some (vs, []) => Some vs | _ => None end)
    else None
  | [] => None
  end.

(* ---- the response state machine ---- *)
Inductive rowdata := RText (cs : list cell) | RBin (vs : list binval).
Inductive unit_ :=
  | UOk (rows id : N)
  | UErr (code : N) (state msg : bytes)
  | URows (cols : list column) (rows : list rowdata)
  | URowsErr (cols : list column) (rows : list rowdata) (code : N) (state msg : bytes).

Definition more (status : N) : bool := has_flag status MORE_RESULTS.

Fixpoint c_coldefs (n : nat) (msgs : list bytes) : option (list column * list bytes) :=
  match n with
  | O => Some ([], msgs)
  | S n' =>
    match msgs with
    | [] => None
    | m :: r => obind (c_coldef m) (fun c =>
                obind (c_coldefs n' r) (fun '(cs, rest) => Some (c :: cs, rest)))
    end
  end.

Inductive rows_end := EndEof (status : N) | EndErr (e : errp).
(* rows until EOF (0xfe, shorter than 9 bytes) or ERR (0xff) *)
Fixpoint c_rows (bin : bool) (cols : list column) (msgs : list bytes)
  : option (list rowdata * rows_end * list bytes) :=
  match msgs with
  | [] => None
  | m :: r =>
    match m with
    | [] => None
    | b :: _ =>
      if byte_eqb b xff then obind (c_err m) (fun e => Some ([], EndErr e, r))
      else if byte_eqb b xfe && (length m <? 9)%nat then
        obind (c_eof m) (fun st => Some ([], EndEof st, r))
      else
        obind (if bin then obind (c_bin_row cols m) (fun vs => Some (RBin vs))
               else obind (c_text_row (length cols) m) (fun cs => Some (RText cs))) (fun row =>
        obind (c_rows bin cols r) (fun '(rows, e, rest) => Some (row :: rows, e, rest)))
    end
  end.

(* one whole response to a query / execute: a chain of results linked by the more-results flag *)
Fixpoint c_response (fuel : nat) (bin : bool) (msgs : list bytes) : option (list unit_ * list bytes) :=
  match fuel with
  | O => None
  | S f =>
    match msgs with
    | [] => None
    | m :: r =>
      match m with
      | [] => None
      | b :: _ =>
        if byte_eqb b x00 then
          obind (c_ok m) (fun ok =>
            if more (ok_status ok) then
              obind (c_response f bin r) (fun '(us, rest) => Some (UOk (ok_rows ok) (ok_id ok) :: us, rest))
            else Some ([UOk (ok_rows ok) (ok_id ok)], r))
        else if byte_eqb b xff then
          obind (c_err m) (fun e => Some ([UErr (err_code e) (err_state e) (err_msg e)], r))
        else
          match c_lenenc m with
          | Some (n, []) =>
            if n =? 0 then None else
            obind (c_coldefs (N.to_nat n) r) (fun '(cols, r1) =>
            match r1 with
            | [] => None
            | e :: r2 =>
              obind (c_eof e) (fun _ =>
              obind (c_rows bin cols r2) (fun '(rows, en, r3) =>
                match en with
                | EndErr er => Some ([URowsErr cols rows (err_code er) (err_state er) (err_msg er)], r3)
                | EndEof st =>
                    if more st then
                      obind (c_response f bin r3) (fun '(us, rest) => Some (URows cols rows :: us, rest))
                    else Some ([URows cols rows], r3)
                end))
            end)
          | _ => None
          end
      end
    end
  end.

(* reply to COM_STMT_PREPARE *)
Record prepok := { pk_id : N; pk_params : list column; pk_cols : list column }.
Definition c_prepare_ok (msgs : list bytes) : option (prepok * list bytes) :=
  match msgs with
  | (b :: i0 :: i1 :: i2 :: i3 :: nc0 :: nc1 :: np0 :: np1 :: _ :: _ :: _ :: nil) :: r =>
      if negb (byte_eqb b x00) then None else
      let nc := N.to_nat (le_val [nc0; nc1]) in
      let np := N.to_nat (le_val [np0; np1]) in
      let defs n msgs :=
        match n with
        | O => Some ([], msgs)
        | _ => obind (c_coldefs n msgs) (fun '(cs, rest) =>
               match rest with
               | e :: rest' => obind (c_eof e) (fun _ => Some (cs, rest'))
               | [] => None end)
        end in
      obind (defs np r) (fun '(ps, r1) =>
      obind (defs nc r1) (fun '(cs, r2) =>
        Some ({| pk_id := le_val [i0; i1; i2; i3]; pk_params := ps; pk_cols := cs |}, r2)))
  | _ => None
  end.

(* the initial greeting (Protocol::HandshakeV10) *)
Record greeting := { g_proto : N; g_version : bytes; g_caps : N; g_charset : N; g_status : N }.
Definition c_greeting (m : bytes) : option greeting :=
  match m with
  | p :: r =>
    obind (take_until_nul r) (fun '(ver, r1) =>
    match r1 with
    | _ :: r2 =>                                   (* the NUL *)
      obind (c_take 4 r2) (fun '(_, r3) =>          (* connection id *)
      obind (c_take 8 r3) (fun '(_, r4) =>          (* auth-plugin-data part 1 *)
      obind (c_take 1 r4) (fun '(_, r5) =>          (* filler *)
      obind (c_take 2 r5) (fun '(cap_lo, r6) =>
      obind (c_take 1 r6) (fun '(cs, r7) =>
      obind (c_take 2 r7) (fun '(stat, r8) =>
      obind (c_take 2 r8) (fun '(cap_hi, _) =>
        Some {| g_proto := N_of_b p; g_version := ver;
                g_caps := le_val cap_lo + 65536 * le_val cap_hi;
                g_charset := le_val cs; g_status := le_val stat |})))))))
    | [] => None
    end)
  | [] => None
  end.
