(* Message-level meaning of shim programs over the writer API, for programs all of whose calls
   succeed: (1) [pm_q]/[pm_r]: the list of logical messages such a program sends; (2) [un_q]/[un_r]:
   the result units a client is meant to see (rows as the values written).  Definitions only.
   Proofs/RunRender.v ties (1) to the monadic model; Proofs/ClientRender.v ties (1) to (2) through
   the client decoder of Spec/Client.v. *)
From MsqlVerif Require Export Model.Resultset Spec.Client.
Open Scope N_scope.

Section WithTables.
Variable errtab : N -> option (N * bytes).

Definition status_of (more : bool) : N := if more then MORE_RESULTS else 0.
Definition fin_msgs (last : option finalizer) (more : bool) : list bytes :=
  match last with
  | None => []
  | Some (FOk r i) => [ok_body r i (status_of more)]
  | Some FEof => [eof_body (status_of more)]
  end.
Definition err_msg_of (code : N) (msg : bytes) : option bytes :=
  match errtab code with Some (c, st) => Some (err_body c st msg) | None => None end.

(* pure row-writer state: the bytes of the row message being assembled *)
Record prow := {
  pr_cur : bytes;      (* what has gone into the packet buffer for the current row *)
  pr_data : bytes;     (* binary protocol: NULL bitmap + values assembled aside *)
  pr_col : nat;
}.
Definition prow0 : prow := {| pr_cur := []; pr_data := []; pr_col := 0 |}.

Definition p_write_col (bin : bool) (cols : list column) (r : prow) (v : value) : option prow :=
  match cols with
  | [] => Some r
  | _ =>
    if bin then
      let cur := if Nat.eqb (pr_col r) 0 then pr_cur r ++ [x00] else pr_cur r in
      let data := if Nat.eqb (pr_col r) 0 then resize0 (pr_data r) ((length cols + 7 + 2) / 8) else pr_data r in
      match nth_error cols (pr_col r) with
      | None => None
      | Some c =>
        if is_null v then
          if has_flag (c_flags c) NOT_NULL_FLAG then None
          else Some {| pr_cur := cur;
                       pr_data := set_bit data ((pr_col r + 2) / 8) (N.of_nat ((pr_col r + 2) mod 8));
                       pr_col := S (pr_col r) |}
        else match to_bin v c with
             | ROk bs => Some {| pr_cur := cur; pr_data := data ++ bs; pr_col := S (pr_col r) |}
             | _ => None
             end
      end
    else
      match to_text v with
      | ROk bs => Some {| pr_cur := pr_cur r ++ bs; pr_data := pr_data r; pr_col := S (pr_col r) |}
      | _ => None
      end
  end.

(* end_row: Some (row message if any, state) *)
Definition p_end_row (bin : bool) (cols : list column) (r : prow) : option (list bytes * prow) :=
  match cols with
  | [] => Some ([], {| pr_cur := pr_cur r; pr_data := pr_data r; pr_col := S (pr_col r) |})
  | _ =>
    if negb (Nat.eqb (pr_col r) (length cols)) then None
    else Some ([pr_cur r ++ (if bin then pr_data r else [])], prow0)
  end.

Fixpoint p_write_cols (bin : bool) (cols : list column) (r : prow) (vs : list value) : option prow :=
  match vs with
  | [] => Some r
  | v :: vs' => match p_write_col bin cols r v with
                | Some r' => p_write_cols bin cols r' vs'
                | None => None end
  end.
Definition p_write_row (bin : bool) (cols : list column) (r : prow) (vs : list value)
  : option (list bytes * prow) :=
  match cols with
  | [] => p_end_row bin cols r
  | _ => match p_write_cols bin cols r vs with
         | Some r' => p_end_row bin cols r'
         | None => None end
  end.

(* finish_inner: flush a started row, compute the deferred terminator *)
Definition p_finish (bin : bool) (cols : list column) (r : prow) : option (list bytes * finalizer) :=
  match cols with
  | [] => Some ([], FOk (N.of_nat (pr_col r)) 0)
  | _ =>
    if Nat.eqb (pr_col r) 0 then Some ([], FEof)
    else match p_end_row bin cols r with
         | Some (m, _) => Some (m, FEof)
         | None => None end
  end.

Definition oapp {A} (l : list A) (o : option (list A)) : option (list A) :=
  match o with Some l' => Some (l ++ l') | None => None end.

(* the messages a program sends when every call succeeds; None = some call fails *)
Fixpoint pm_q (bin : bool) (last : option finalizer) (p : qprog) {struct p} : option (list bytes) :=
  match p with
  | QStart cols k =>
      oapp (fin_msgs last true ++ match cols with [] => [] | _ => column_definitions_msgs cols end)
           (pm_r bin cols prow0 k)
  | QCompleteOne r i k => oapp (fin_msgs last true) (pm_q bin (Some (FOk r i)) k)
  | QCompleted r i => Some (fin_msgs last true ++ [ok_body r i 0])
  | QError code msg =>
      match err_msg_of code msg with
      | Some m => Some (fin_msgs last true ++ [m])
      | None => None end
  | QNoMore | QDrop => Some (fin_msgs last false)
  end
with pm_r (bin : bool) (cols : list column) (r : prow) (p : rprog) {struct p} : option (list bytes) :=
  match p with
  | RWriteCol v _ k =>
      match p_write_col bin cols r v with
      | Some r' => pm_r bin cols r' k
      | None => None end
  | REndRow _ k =>
      match p_end_row bin cols r with
      | Some (m, r') => oapp m (pm_r bin cols r' k)
      | None => None end
  | RWriteRow vs _ k =>
      match p_write_row bin cols r vs with
      | Some (m, r') => oapp m (pm_r bin cols r' k)
      | None => None end
  | RFinish | RDrop =>
      match p_finish bin cols r with
      | Some (m, f) => Some (m ++ fin_msgs (Some f) false)
      | None => None end
  | RFinishOne k =>
      match p_finish bin cols r with
      | Some (m, f) => oapp m (pm_q bin (Some f) k)
      | None => None end
  | RFinishError code msg =>
      match cols, Nat.eqb (pr_col r) 0 with
      | _ :: _, false =>
          match p_end_row bin cols r, err_msg_of code msg with
          | Some (m, _), Some e => Some (m ++ [e])
          | _, _ => None end
      | _, _ => match err_msg_of code msg with Some e => Some [e] | None => None end
      end
  end.

(* ---- what the client is meant to see ---- *)

(* a written value as the client decodes it in the text protocol *)
Definition tcell (v : value) : option cell :=
  match text_cell v with
  | ROk None => Some CNull
  | ROk (Some s) => Some (CText s)
  | _ => None
  end.

(* ... and in the binary protocol, under the declared column *)
Definition myc_denote (m : mycv) (c : column) : binval :=
  match m with
  | MNull => BNull
  | MBytes bs => BBytes bs
  | MInt z | MUInt z => BInt z
  | MFloat bits _ b64 => if c_type c =? 5 then BF64 b64 else BF32 bits
  | MDouble bits _ => BF64 bits
  | MDate y mo d h mi s us => BDate y mo d h mi s us
  | MTime _ d h mi s us =>
      let '(secs, nanos) := myc_time_to_dur d h mi s us in
      if (secs =? 0) && (nanos / 1000 =? 0) then BTime false 0 0 0 0 0
      else BTime false (secs / 86400) ((secs mod 86400) / 3600) ((secs mod 3600) / 60) (secs mod 60) (nanos / 1000)
  end.
Fixpoint bin_denote (v : value) (c : column) : binval :=
  match v with
  | VInt _ z => BInt z
  | VF32 bits _ b64 => if c_type c =? 5 then BF64 b64 else BF32 bits
  | VF64 bits _ => BF64 bits
  | VBytes bs => BBytes bs
  | VDate y m d => BDate (Z.to_N y) m d 0 0 0 0
  | VDateTime y m d h mi s ns => BDate (Z.to_N y) m d h mi s (ns / 1000)
  | VDur secs ns =>
      if (secs =? 0) && (ns / 1000 =? 0) then BTime false 0 0 0 0 0
      else BTime false (secs / 86400) ((secs mod 86400) / 3600) ((secs mod 3600) / 60) (secs mod 60) (ns / 1000)
  | VNone => BNull
  | VSome v' | VRef v' => bin_denote v' c
  | VMyc m => myc_denote m c
  end.
Definition bcell (v : value) (c : column) : binval := if is_null v then BNull else bin_denote v c.

(* a completed row of written values, as the client decodes it *)
Fixpoint tcells (vs : list value) : option (list cell) :=
  match vs with
  | [] => Some []
  | v :: r => match tcell v, tcells r with
              | Some c, Some cs => Some (c :: cs)
              | _, _ => None end
  end.
Definition row_of (bin : bool) (cols : list column) (vs : list value) : option rowdata :=
  if bin then Some (RBin (map (fun vc => bcell (fst vc) (snd vc)) (combine vs cols)))
  else match tcells vs with Some cs => Some (RText cs) | None => None end.

Definition err_unit (code : N) (msg : bytes) : option unit_ :=
  match errtab code with Some (c, st) => Some (UErr c st msg) | None => None end.

(* close the current row (if one was started) when the resultset is finished *)
Definition u_flush (bin : bool) (cols : list column) (cur : list value) (done : list rowdata)
  : option (list rowdata) :=
  match cur with
  | [] => Some done
  | _ => match row_of bin cols cur with Some r => Some (done ++ [r]) | None => None end
  end.

Definition ocons {A} (x : A) (o : option (list A)) : option (list A) :=
  match o with Some l => Some (x :: l) | None => None end.

(* the result units the client is meant to decode; cnt counts ended rows of a zero-column set *)
Fixpoint un_q (bin : bool) (p : qprog) {struct p} : option (list unit_) :=
  match p with
  | QStart cols k => un_r bin cols [] [] 0 k
  | QCompleteOne r i k => ocons (UOk r i) (un_q bin k)
  | QCompleted r i => Some [UOk r i]
  | QError code msg => match err_unit code msg with Some u => Some [u] | None => None end
  | QNoMore | QDrop => Some []
  end
with un_r (bin : bool) (cols : list column) (cur : list value) (done : list rowdata) (cnt : nat)
          (p : rprog) {struct p} : option (list unit_) :=
  match p with
  | RWriteCol v _ k =>
      match cols with
      | [] => un_r bin cols cur done cnt k
      | _ => un_r bin cols (cur ++ [v]) done cnt k
      end
  | REndRow _ k =>
      match cols with
      | [] => un_r bin cols cur done (S cnt) k
      | _ => match row_of bin cols cur with
             | Some r => un_r bin cols [] (done ++ [r]) cnt k
             | None => None end
      end
  | RWriteRow vs _ k =>
      match cols with
      | [] => un_r bin cols cur done (S cnt) k
      | _ => match row_of bin cols (cur ++ vs) with
             | Some r => un_r bin cols [] (done ++ [r]) cnt k
             | None => None end
      end
  | RFinish | RDrop =>
      match cols with
      | [] => Some [UOk (N.of_nat cnt) 0]
      | _ => match u_flush bin cols cur done with
             | Some rows => Some [URows cols rows]
             | None => None end
      end
  | RFinishOne k =>
      match cols with
      | [] => ocons (UOk (N.of_nat cnt) 0) (un_q bin k)
      | _ => match u_flush bin cols cur done with
             | Some rows => ocons (URows cols rows) (un_q bin k)
             | None => None end
      end
  | RFinishError code msg =>
      match cols with
      | [] => match err_unit code msg with Some u => Some [u] | None => None end
      | _ => match u_flush bin cols cur done, errtab code with
             | Some rows, Some (c, st) => Some [URowsErr cols rows c st msg]
             | _, _ => None end
      end
  end.

End WithTables.
