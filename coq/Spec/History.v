(* Specification: the life of prepared statements as a function of the conversation history.
   Per statement id, independently of every other id:
     PREPARE (replied)  -> the id is live, with the declared parameter count, no bound types, nothing pending
     CLOSE              -> the id is dead
     EXECUTE            -> rebinding executions replace the bound types; pending long data is consumed
     SEND_LONG_DATA     -> the chunk is appended to what is pending for (id, parameter)
   Definitions only. *)
From MsqlVerif Require Export Model.Server Spec.ClientEnc.
Open Scope N_scope.

Inductive hev :=
  | HPrepare (id nparams : N)                               (* the shim replied to a PREPARE with this id *)
  | HClose (id : N)
  | HExec (id : N) (ps : list cparam) (send_types : bool)   (* an execution (parameters pulled by the shim) *)
  | HLong (id param : N) (data : bytes)
  | HOther.

Record sview := { v_params : N; v_types : list (N * bool); v_long : list (N * bytes) }.

Definition types_of (ps : list cparam) : list (N * bool) := map (fun p => (cp_type p, cp_unsigned p)) ps.

Definition add_chunk (param : N) (data : bytes) (l : list (N * bytes)) : list (N * bytes) :=
  insert_key param ((match lookup param l with Some d => d | None => [] end) ++ data) l.

Definition hstep (id : N) (o : option sview) (e : hev) : option sview :=
  match e with
  | HPrepare i n => if i =? id then Some {| v_params := n; v_types := []; v_long := [] |} else o
  | HClose i => if i =? id then None else o
  | HExec i ps b =>
      if i =? id then
        match o with
        | Some v => Some {| v_params := v_params v;
                            v_types := (match ps, b with _ :: _, true => types_of ps | _, _ => v_types v end);
                            v_long := [] |}
        | None => None end
      else o
  | HLong i param data =>
      if i =? id then
        match o with
        | Some v => Some {| v_params := v_params v; v_types := v_types v; v_long := add_chunk param data (v_long v) |}
        | None => None end
      else o
  | HOther => o
  end.

(* the statement as the history defines it; None = not executable *)
Definition abs_stmt (h : list hev) (id : N) : option sview := fold_left (hstep id) h None.

Definition live (h : list hev) (id : N) : bool := match abs_stmt h id with Some _ => true | None => false end.
Definition latest_types (h : list hev) (id : N) : list (N * bool) :=
  match abs_stmt h id with Some v => v_types v | None => [] end.
Definition pending (h : list hev) (id param : N) : option bytes :=
  match abs_stmt h id with Some v => lookup param (v_long v) | None => None end.
