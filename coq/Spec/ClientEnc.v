(* Specification: what a conformant client SENDS -- handshake responses (4.1 and 3.20 layouts) and
   COM_STMT_EXECUTE parameter blocks.  Definitions only. *)
From MsqlVerif Require Export Model.Codec.
Open Scope N_scope.

(* HandshakeResponse41: capabilities (4), max packet (4), charset (1), 23 reserved bytes,
   NUL-terminated user name, then auth data / database / plugin name ... (anything) *)
Definition hs41 (caps maxps charset : N) (reserved user tail : bytes) : bytes :=
  le_bytes 4 caps ++ le_bytes 4 maxps ++ [b_of_N charset] ++ reserved ++ user ++ [x00] ++ tail.
(* SSLRequest: the same without a user name *)
Definition ssl_request (caps maxps charset : N) (reserved : bytes) : bytes :=
  le_bytes 4 caps ++ le_bytes 4 maxps ++ [b_of_N charset] ++ reserved.
(* HandshakeResponse320: capabilities (2), max packet (3), NUL-terminated user name, ... *)
Definition hs320 (caps maxps : N) (user tail : bytes) : bytes :=
  le_bytes 2 caps ++ le_bytes 3 maxps ++ user ++ [x00] ++ tail.

Definition no_nul (bs : bytes) : Prop := Forall (fun b => b <> x00) bs.

(* ---- COM_STMT_EXECUTE parameter block ---- *)
(* NULL bitmap (offset 0): bit i of byte i/8 set iff parameter i is NULL *)
Fixpoint bits_to_N (bs : list bool) : N :=
  match bs with [] => 0 | b :: r => (if b then 1 else 0) + 2 * bits_to_N r end.
Fixpoint null_bitmap_f (fuel : nat) (nulls : list bool) : bytes :=
  match fuel with
  | O => []
  | S f => match nulls with
           | [] => []
           | _ => b_of_N (bits_to_N (firstn 8 nulls)) :: null_bitmap_f f (skipn 8 nulls)
           end
  end.
Definition null_bitmap (nulls : list bool) : bytes := null_bitmap_f (length nulls) nulls.

(* one bound parameter: type code, unsigned flag, NULL or the already-encoded value bytes *)
Record cparam := { cp_type : N; cp_unsigned : bool; cp_value : option bytes }.
Definition type_table (ps : list cparam) : bytes :=
  flat_map (fun p => [b_of_N (cp_type p); if cp_unsigned p then x80 else x00]) ps.
Definition values_of (ps : list cparam) : bytes :=
  flat_map (fun p => match cp_value p with Some v => v | None => [] end) ps.
(* with new-params-bound = 1 (types sent) or 0 (types of an earlier execution are reused) *)
Definition exec_block (ps : list cparam) (send_types : bool) : bytes :=
  match ps with
  | [] => []
  | _ => null_bitmap (map (fun p => match cp_value p with None => true | Some _ => false end) ps)
         ++ (if send_types then x01 :: type_table ps else [x00]) ++ values_of ps
  end.
