(* Extraction of the executable model and specification functions to OCaml.
   Only ExtrOcamlBasic's directives are used (bool, option, unit, list, prod, sumbool, sumor,
   andb, orb); numbers and bytes stay the extracted inductive types. *)
From MsqlVerif Require Import Model.Server Model.ErrTab Model.Tls.
Require Import ExtrOcamlBasic.
Extraction Language OCaml.
Set Extraction KeepSingleton.

Definition model_run_on := run_on.
Definition model_errtab := errtab.
Definition model_to_text := to_text.
Definition model_to_bin := to_bin.
Definition model_is_null := is_null.
Definition model_init_st := init_st.
Definition model_run_on_tls := run_on_tls.

Extraction "model.ml"
  model_run_on model_run_on_tls model_errtab model_to_text model_to_bin model_is_null model_init_st
  b_of_N N_of_b dec_Z N.of_nat N.to_nat N.mul N.add Z.of_N Z.opp.
