(* Extraction of the executable model and specification functions to OCaml.
   Only ExtrOcamlBasic's directives are used (bool, option, unit, list, prod, sumbool, sumor,
   andb, orb); numbers and bytes stay the extracted inductive types. *)
From MsqlVerif Require Import Model.Server Model.ErrTab Model.Tls Spec.Frame Spec.Client.
Require Import ExtrOcamlBasic.
Extraction Language OCaml.
Set Extraction KeepSingleton.

Definition model_run_on := run_on.
Definition model_errtab := errtab.
Definition model_to_text := to_text.
Definition model_to_bin := to_bin.
Definition model_is_null := is_null.
Definition model_init_st := init_st.
Definition model_run_on_tls := run_on_tls.
(* the specification's client, run over what the REAL code emitted *)
Definition spec_deframe := deframe.
Definition spec_response := c_response.
Definition spec_prepare_ok := c_prepare_ok.
Definition spec_ok := c_ok.
Definition spec_err := c_err.
Definition spec_greeting := c_greeting.
Definition spec_coldef := c_coldef.
Definition spec_eof := c_eof.

Extraction "model.ml"
  model_run_on model_run_on_tls spec_deframe spec_response spec_prepare_ok spec_ok spec_err spec_greeting spec_coldef spec_eof model_errtab model_to_text model_to_bin model_is_null model_init_st
  b_of_N N_of_b dec_Z N.of_nat N.to_nat N.mul N.add Z.of_N Z.opp.
